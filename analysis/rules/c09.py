"""C09 - Wrath header streams are RC4-drop1024 under direction-specific HMAC keys.

Decides: InnerCrypto::new(K, c) = RC4 keyed with all 20 bytes of HMAC-SHA1(key = c; msg = K)
whose first 1024 keystream bytes are discarded (keystream applied to a local zero array of
length 1024) (A5/A3); the direction table - server encrypter and client decrypter use one
constant, client encrypter and server decrypter the other, with the documented values (A3 +
constants); RC4 itself: KSA (identity init, j = j +8 S[i] +8 key[i mod len], swap, i = 0..256
in order) and PRGA (i +8= 1; j +8= S[i]; swap; out = S[S[i] +8 S[j]]) with u8 wrapping counters
and one PRGA step XORed into every byte in order (A6); the state is written only by these
functions (A4b)."""
import cfg
from rules import util, ciphers, arith
from rules.arith import S, I, wadd, xor
from rules.util import P, strip, canon, show_b
from symex import show, walk

EXPLANATION = __doc__
TRUSTED = ["rustc / extractor", "textbook RC4 as written in spec (KSA/PRGA definitions)", "HMAC-SHA1 implementation", "stream induction lemma"]
NOT_DECIDED = ["HMAC / SHA-1 internals"]
SERVER_ENCRYPT = bytes.fromhex("CC98AE04E897EACA12DDC09342915357")  # server -> client
SERVER_DECRYPT = bytes.fromhex("C2B3723CC6AED9B5343C53EE2F4367CE")  # client -> server
DROP = 1024
IC = "wrath_header::inner_crypto::InnerCrypto"
FLOORS = {"entry-points": 36, "derivation": 3, "direction": 5, "prga": 4, "ksa": 4, "keystream": 3, "state-writers": 2, "header-framing": 6}


def prga_closure(ctx):
    """the PRGA step written as the closure of `core::iter::from_fn` inside a method of Rc4 that
    hands out the keystream as an iterator: (closure path, method path) or None"""
    fb = ctx.fb
    out = []
    for pth, b in fb.bodies.items():
        if b.kind == "Closure" and (b.d.get("parent") or "").startswith("rc4::Rc4::"):
            par = fb.bodies.get(b.d["parent"])
            if par is None:
                continue
            for _, t in par.calls():
                if (t.get("callee") or "") in ("std::iter::from_fn", "core::iter::from_fn"):
                    out.append((pth, par.path))
    out = sorted(set(out))
    return out[0] if len(out) == 1 else None


def is_keystream_iter(ctx, t, owner):
    """t = from_fn(<the PRGA closure capturing exactly `owner` mutably>)"""
    pc = prga_closure(ctx)
    t = strip(t)
    if pc is None or not util.is_call(t) or t[1] not in ("std::iter::from_fn", "core::iter::from_fn") or len(t[2]) != 1:
        return False
    cl = t[2][0]
    if not (cl[0] == "agg" and cl[1] == "closure" and cl[2] == pc[0] and len(cl[4]) == 1):
        return False
    cap = cl[4][0]
    return strip(cap) == strip(owner) or (cap[0] == "ref" and strip(cap[1]) == strip(owner))


def applicable(feats):
    return "wrath-header" in feats


def _whole_view(i):
    """`&mut data[..]`: the full-range view of a slice is the slice"""
    return i["name"].split("::")[-1] in ("index", "index_mut") and len(i.get("locargs", ())) == 2 and i["locargs"][1][0] == "agg" and i["locargs"][1][2] == "std::ops::RangeFull"


def _scratch_len(se, call, locargs):
    """the length of the buffer handed to apply_keystream at `call`, when it is a constant: a
    `[x; N]` array, a `vec![x; N]`, either of them after earlier applications"""
    pad = se.call_old.get((call[3][:2], 1))
    pad = strip(pad) if pad is not None else None
    for _ in range(70):
        if pad is None:
            break
        if pad[0] == "after" and util.is_call(pad[1], "rc4::Rc4::apply_keystream"):
            pad = strip(pad[3])
            continue
        if pad[0] == "repeat" and isinstance(pad[2], int):
            return pad[2]
        if util.is_call(pad, "std::vec::from_elem") and util.numnorm(pad[2][1])[0] == "int":
            return util.numnorm(pad[2][1])[1]
        break
    if len(locargs) > 1 and locargs[1] and locargs[1][0] == "ref":
        return se.loc_array_len(locargs[1][1])
    return None


def check(ctx, rep):
    # "the receiver recovers the sender's headers": every entry point of this expansion that
    # feeds bytes to the cipher (typed helpers, Read/Write wrappers, facade) must hand the raw
    # operation exactly the bytes of the header, once - the obligations C11 decides, filed here
    # for this expansion's functions
    from rules import c11
    c11.check(ctx, util.Refile(rep, "entry-points", None, lambda fn: fn.startswith("wrath_header::")))
    # "the client's decrypter pairs with the server's encrypter": the two sides must agree on how
    # many bytes of a server header go through the cipher - the 4 / 5 byte decision of the
    # encoder and the flag test of the decoder (C10's rules, filed here as well): a header the
    # encoder writes short and the decoder reads long moves one key stream a byte ahead for good
    from rules import c10
    c10.check(ctx, util.Refile(rep, "header-framing", {"encoder", "decoder", "roundtrip"}))
    fb = ctx.fb
    # ---------------- derivation
    fn = IC + "::new"
    se = ctx.wrap.run(fn)
    dir_keys = {}           # direction given as a variant of a private enum: variant index -> HMAC key constant
    dir_enum = None
    if se is not None:
        p2 = se.body.local_ty(2)
        p2 = p2.peel_refs() if p2 is not None else None
        if p2 is not None and p2.k == "adt" and p2.path in fb.adts and fb.adts[p2.path].get("kind") == "Enum":
            # `InnerCrypto::new(session_key, Direction::X)`: the constructor restricted to each
            # variant (the other arms of its match on the direction pruned) is decided on its own
            dir_enum = p2.path
            sws = [(bb, i) for bb, i in se.term_info.items() if i.get("k") == "switch" and strip(i["discr"]) == ("discr", ("param", 2))]
            runs = []
            if len(sws) == 1:
                sb, si_ = sws[0]
                tg = dict(si_["targets"])
                for vi, v_ in enumerate(fb.adts[dir_enum]["variants"]):
                    dv = int(v_.get("discr", vi))
                    tgt = tg.get(dv, si_["otherwise"])
                    nm = fb.pruned(fn, "dir%d" % vi, {sb: tgt})
                    rs = ctx.wrap.run(nm) if nm else None
                    if rs is not None:
                        runs.append((vi, rs))
            if len(runs) == len(fb.adts[dir_enum]["variants"]) and runs:
                for vi, rs in runs:
                    r_ = strip(rs.ret)
                    if r_[0] == "agg" and r_[2] == IC and len(r_[4]) == 1:
                        v_ = r_[4][0]
                        base = v_[3] if v_[0] == "after" else v_
                        if util.is_call(base, "rc4::Rc4::new"):
                            kb = util.bexpr(ctx, rs, base[2][0])
                            if kb[0] == "HMAC" and kb[1][0] == "const" and len(kb[1][1]) == 16 and kb[2] == (P(1),):
                                dir_keys[vi] = kb[1][1]
                se = runs[0][1]         # the remaining derivation obligations on one restricted run
            else:
                rep.violation("derivation", fn, "direction-enum", "the constructor takes the direction as %s but does not select the HMAC key by one match on it" % dir_enum, se.body.loc())
    if se is None:
        rep.violation("derivation", fn, "anchor", "not found")
    else:
        r = strip(se.ret)
        good = False
        desc = show(r, maxdepth=3)
        if r[0] == "agg" and r[2] == IC and len(r[4]) == 1:
            v = r[4][0]
            # after<apply_keystream(rc4, pad)>(Rc4::new(hmac bytes))
            # several straight-line applications in a row discard the sum of their buffers' lengths
            # (the keystream does not depend on the bytes it is applied to; PRGA rule)
            chain = []
            w_ = v
            while w_[0] == "after" and util.is_call(w_[1], "rc4::Rc4::apply_keystream") and w_[2] == 0 and len(chain) < 64:
                chain.append(w_[1])
                w_ = strip(w_[3])
            if len(chain) > 1 and util.is_call(w_, "rc4::Rc4::new") and not cfg.back_edges(se.body):
                key = util.bexpr(ctx, se, w_[2][0])
                want = ("HMAC", P(2), (P(1),)) if dir_enum is None else ("HMAC", ("const", dir_keys.get(0, b"")), (P(1),))
                if dir_enum is not None and len(dir_keys) != len(fb.adts[dir_enum]["variants"]):
                    want = ("?",)
                rep.check(key == util.cb(want), "derivation", fn, "hmac-key", "RC4 key = all bytes of HMAC-SHA1(key = direction constant; session key)", "RC4 key is %s, expected HMAC-SHA1(key=arg2; arg1)" % show_b(key)[:300], se.body.loc())
                lens_ = []
                for c_ in chain:
                    la_ = se.term_info.get(c_[3][1], {}).get("locargs", ((), ()))
                    lens_.append(_scratch_len(se, c_, la_))
                tot = sum(lens_) if all(isinstance(x, int) for x in lens_) else None
                rep.check(tot == DROP, "derivation", fn, "drop-1024", "%d keystream applications over scratch buffers of %s bytes: %d bytes discarded" % (len(chain), lens_, DROP), "discarded prefix is %s bytes in %d applications, expected %d in all" % (lens_, len(chain), DROP), se.body.loc())
                n = sum(1 for i in se.term_info.values() if i.get("k") == "call" and i["name"] == "rc4::Rc4::apply_keystream")
                rep.check(n == len(chain), "derivation", fn, "single-drop", "the only keystream applications in the constructor are the discarded ones", "%d keystream applications in the constructor, %d of them in the discard chain" % (n, len(chain)), se.body.loc())
                good = True
            elif v[0] == "after" and util.is_call(v[1], "rc4::Rc4::apply_keystream") and v[2] == 0 and util.is_call(v[3], "rc4::Rc4::new"):
                key = util.bexpr(ctx, se, v[3][2][0])
                want = ("HMAC", P(2), (P(1),)) if dir_enum is None else ("HMAC", ("const", dir_keys.get(0, b"")), (P(1),))
                if dir_enum is not None and len(dir_keys) != len(fb.adts[dir_enum]["variants"]):
                    want = ("?",)
                rep.check(key == util.cb(want), "derivation", fn, "hmac-key", "RC4 key = all bytes of HMAC-SHA1(key = direction constant; session key)", "RC4 key is %s, expected HMAC-SHA1(key=arg2; arg1)" % show_b(key)[:300], se.body.loc())
                site = v[1][3][:2]
                pad = se.call_old.get((site, 1))
                pad = strip(pad) if pad else None
                good_pad = pad is not None and pad[0] == "repeat" and pad[1][:2] == ("int", 0) and pad[2] == DROP
                if not good_pad and pad is not None:
                    # any scratch buffer of 1024 bytes will do (`vec![0; 1024]`): only its length matters
                    good_pad = _scratch_len(se, v[1], se.term_info.get(v[1][3][1], {}).get("locargs", ((), ()))) == DROP
                rep.check(good_pad, "derivation", fn, "drop-1024", "keystream applied once to a local [0; 1024] and discarded", "discarded prefix is %s, expected a zero array of length %d" % (show(pad, maxdepth=2) if pad else "?", DROP), se.body.loc())
                # only one keystream application in new
                n = sum(1 for i in se.term_info.values() if i.get("k") == "call" and i["name"] == "rc4::Rc4::apply_keystream")
                rep.check(n == 1, "derivation", fn, "single-drop", "exactly one discard", "%d keystream applications in the constructor" % n, se.body.loc())
                good = True
            # or: a helper that advances the keystream n times, called with the constant 1024
            elif v[0] == "after" and util.is_call(v[1]) and v[2] == 0 and util.is_call(v[3], "rc4::Rc4::new") and skip_helper(ctx, v[1][1]) is not None:
                key = util.bexpr(ctx, se, v[3][2][0])
                want = ("HMAC", P(2), (P(1),)) if dir_enum is None else ("HMAC", ("const", dir_keys.get(0, b"")), (P(1),))
                if dir_enum is not None and len(dir_keys) != len(fb.adts[dir_enum]["variants"]):
                    want = ("?",)
                rep.check(key == util.cb(want), "derivation", fn, "hmac-key", "RC4 key = all bytes of HMAC-SHA1(key = direction constant; session key)", "RC4 key is %s, expected HMAC-SHA1(key=arg2; arg1)" % show_b(key)[:300], se.body.loc())
                kparam = skip_helper(ctx, v[1][1])
                amount = strip(v[1][2][kparam - 1]) if kparam - 1 < len(v[1][2]) else ("?",)
                rep.check(amount[:2] == ("int", DROP), "derivation", fn, "drop-1024", "%s advances the keystream once per count; called with %d" % (v[1][1], DROP), "discarded prefix is %s steps, expected %d" % (show(amount, maxdepth=2), DROP), se.body.loc())
                n = sum(1 for i in se.term_info.values() if i.get("k") == "call" and (i["name"] == "rc4::Rc4::apply_keystream" or skip_helper(ctx, i["name"]) is not None))
                rep.check(n == 1, "derivation", fn, "single-drop", "exactly one discard", "%d keystream applications in the constructor" % n, se.body.loc())
                good = True
            # or: the keystream as an iterator, `inner.keystream().take(1024).for_each(drop)`: the
            # closure behind it yields Some on every call (PRGA rule), so take(1024) runs it 1024 times
            elif v[0] == "after" and util.is_call(v[1]) and v[1][1] in ("std::iter::from_fn", "core::iter::from_fn") and v[2] == 0 and util.is_call(v[3], "rc4::Rc4::new") and prga_closure(ctx) is not None:
                key = util.bexpr(ctx, se, v[3][2][0])
                want = ("HMAC", P(2), (P(1),)) if dir_enum is None else ("HMAC", ("const", dir_keys.get(0, b"")), (P(1),))
                if dir_enum is not None and len(dir_keys) != len(fb.adts[dir_enum]["variants"]):
                    want = ("?",)
                rep.check(key == util.cb(want), "derivation", fn, "hmac-key", "RC4 key = all bytes of HMAC-SHA1(key = direction constant; session key)", "RC4 key is %s, expected HMAC-SHA1(key=arg2; arg1)" % show_b(key)[:300], se.body.loc())
                ff = strip(v[1])
                users = [i for i in se.term_info.values() if i.get("k") == "call" and any(strip(a) == ff for a in i["args"])]
                takes = [i for i in users if i["name"] == "std::iter::Iterator::take"]
                fe = []
                amount = ("?",)
                if len(users) == 1 and len(takes) == 1:
                    amount = strip(takes[0]["args"][1])
                    tk = strip(takes[0]["term"])
                    fe = [i for i in se.term_info.values() if i.get("k") == "call" and i["name"].endswith("Iterator>::for_each") or i.get("k") == "call" and i["name"] == "std::iter::Iterator::for_each"]
                    fe = [i for i in fe if strip(i["args"][0]) == tk and i["args"][1] in (("fn", "std::mem::drop"), ("fn", "core::mem::drop"))]
                cl = ff[2][0]
                own = cl[0] == "agg" and cl[1] == "closure" and cl[2] == prga_closure(ctx)[0] and len(cl[4]) == 1
                rep.check(own and len(fe) == 1 and amount[:2] == ("int", DROP), "derivation", fn, "drop-1024", "keystream().take(%d).for_each(drop): %d PRGA steps discarded" % (DROP, DROP), "discarded prefix is not exactly %d steps of this cipher's keystream (take %s, %d consumers)" % (DROP, show(amount, maxdepth=2), len(fe)), se.body.loc())
                n = sum(1 for i in se.term_info.values() if i.get("k") == "call" and (i["name"] in ("rc4::Rc4::apply_keystream", "std::iter::from_fn", "core::iter::from_fn") or skip_helper(ctx, i["name"]) is not None))
                rep.check(n == 1, "derivation", fn, "single-drop", "exactly one discard", "%d keystream applications in the constructor" % n, se.body.loc())
                good = True
        if not good and r[0] == "agg" and r[2] == IC and len(r[4]) == 1 and r[4][0][0] == "phi":
            # or: the drop done piece by piece, `for _ in 0..K { inner.apply_keystream(&mut [0; L]) }`
            # with K * L = 1024 (the keystream does not depend on the bytes it is applied to)
            from rules import algos
            v = r[4][0]
            body_ = se.body
            fi = algos.for_info(ctx, se)
            if len(fi) == 1 and v[1] == se.fn and v[2] in fi:
                head = v[2]
                elem, src, lp = fi[head]
                st_ = algos.loop_state(se, head)
                mine = [(k_, iv, sv) for k_, (iv, sv) in st_.items() if algos.phi_of(se, head, k_) == v]
                cnt = None
                if src is not None and src[0] == "agg" and src[2] == "std::ops::Range":
                    from symex import fold_consts

                    def cval(x):
                        x = util.numnorm(fold_consts(x))
                        if x[0] == "binop" and x[1] in ("Div", "Mul", "Add", "Sub") and cval(x[2])[0] == "int" and cval(x[3])[0] == "int" and (x[1] != "Div" or cval(x[3])[1] != 0):
                            a_, b_ = cval(x[2])[1], cval(x[3])[1]
                            return ("int", {"Div": a_ // b_ if b_ else 0, "Mul": a_ * b_, "Add": a_ + b_, "Sub": a_ - b_}[x[1]])
                        return x
                    lo_, hi_ = cval(src[4][0]), cval(src[4][1])
                    if lo_[0] == "int" and hi_[0] == "int":
                        cnt = hi_[1] - lo_[1]
                if len(mine) == 1 and cnt is not None and cnt > 0:
                    k_, iv, sv = mine[0]
                    iv, sv = strip(iv), sv
                    apps = [i for i in se.term_info.values() if i.get("k") == "call" and i["name"] == "rc4::Rc4::apply_keystream"]
                    loop_blocks = set()
                    for e in cfg.back_edges(body_):
                        if e[1] == head:
                            loop_blocks |= cfg.natural_loop(body_, e)
                    if util.is_call(iv, "rc4::Rc4::new") and len(apps) == 1 and apps[0]["site"][1] in loop_blocks and sv[0] == "after" and strip(sv[1]) == strip(apps[0]["term"]) and sv[2] == 0 and strip(sv[3]) == strip(v):
                        key = util.bexpr(ctx, se, iv[2][0])
                        want = ("HMAC", P(2), (P(1),)) if dir_enum is None else ("HMAC", ("const", dir_keys.get(0, b"")), (P(1),))
                        if dir_enum is not None and len(dir_keys) != len(fb.adts[dir_enum]["variants"]):
                            want = ("?",)
                        rep.check(key == util.cb(want), "derivation", fn, "hmac-key", "RC4 key = all bytes of HMAC-SHA1(key = direction constant; session key)", "RC4 key is %s, expected HMAC-SHA1(key=arg2; arg1)" % show_b(key)[:300], se.body.loc())
                        la_ = apps[0].get("locargs", ((), ()))
                        plen = se.loc_array_len(la_[1][1]) if len(la_) > 1 and la_[1][0] == "ref" else None
                        idom = cfg.dominators(body_)
                        every = all(cfg.dominates(idom, apps[0]["site"][1], t_) for t_, h_ in cfg.back_edges(body_) if h_ == head)
                        rep.check(plen is not None and plen * cnt == DROP and every, "derivation", fn, "drop-1024", "%d rounds of the keystream over a %s-byte scratch buffer: %d bytes discarded" % (cnt, plen, DROP), "discarded prefix is %s rounds x %s bytes, expected %d bytes in all" % (cnt, plen, DROP), se.body.loc())
                        rep.ok("derivation", fn, "single-drop", "the only keystream application in the constructor is the one in the drop loop", se.body.loc())
                        good = True
        if not good:
            rep.violation("derivation", fn, "shape", "constructor is not Rc4::new(hmac) followed by one discarded keystream application: " + desc, se.body.loc())
        sig = [fb.ty(i).peel_refs().s for i in se.body.d["inputs"]]
        if dir_enum is not None and len(sig) == 2 and sig[1] == dir_enum and all(len(v) == 16 for v in dir_keys.values()):
            sig[1] = "[u8; 16]"         # the 16-byte constant comes with the variant
        rep.check(sig == ["[u8; 40]", "[u8; 16]"], "derivation", fn, "widths", "(session key [u8; 40], constant [u8; 16]), by value or by reference", "parameter types %s" % [fb.ty(i).s for i in se.body.d["inputs"]])
    # apply = keystream
    ase = ctx.wrap.run(IC + "::apply")
    if ase is not None:
        calls = [i for i in ase.term_info.values() if i.get("k") == "call" and not _whole_view(i)]
        good = len(calls) == 1 and calls[0]["name"] == "rc4::Rc4::apply_keystream" and strip(calls[0]["locargs"][1]) == ("param", 2)
        rep.check(good, "keystream", IC + "::apply", "delegates", "apply(data) = inner.apply_keystream(data)", "InnerCrypto::apply is not a plain keystream application")
    # ---------------- direction table
    table = [
        ("wrath_header::encrypt::ServerEncrypterHalf", "server->client", SERVER_ENCRYPT),
        ("wrath_header::decrypt::ClientDecrypterHalf", "server->client", SERVER_ENCRYPT),
        ("wrath_header::encrypt::ClientEncrypterHalf", "client->server", SERVER_DECRYPT),
        ("wrath_header::decrypt::ServerDecrypterHalf", "client->server", SERVER_DECRYPT),
    ]
    seen = {}
    for half, direction, want in table:
        fn = half + "::new"
        se = ctx.wrap.run(fn)
        if se is None:
            rep.violation("direction", fn, "anchor", "not found")
            continue
        r = strip(se.ret)
        got = None
        keyarg = None
        if r[0] == "agg" and r[2] == half:
            for o in r[4]:
                if util.is_call(o, IC + "::new"):
                    keyarg = strip(o[2][0])
                    c = strip(o[2][1])
                    if c[0] == "bytes":
                        got = c[1]
                    elif c[0] == "agg" and c[1] == "adt" and dir_enum is not None and c[2] == dir_enum and isinstance(c[3], int):
                        got = dir_keys.get(c[3])
        seen[half] = got
        rep.check(got == want and keyarg == ("param", 1), "direction", fn, direction, "InnerCrypto::new(session key, %s constant %s..)" % (direction, want[:4].hex()), "%s is keyed with constant %s (session key operand %s); the %s constant is %s" % (half, got.hex() if got else "?", show(keyarg) if keyarg else "?", direction, want.hex()), se.body.loc())
        # the half's raw operation is InnerCrypto::apply on that field
        meth = "encrypt" if "Encrypter" in half else "decrypt"
        mse = ctx.wrap.run(half + "::" + meth)
        if mse is not None:
            calls = [i for i in mse.term_info.values() if i.get("k") == "call" and not (i.get("inlined") and i["name"].split("::")[-1] in ("deref", "deref_mut")) and not _whole_view(i)]
            good = len(calls) == 1 and calls[0]["name"] == IC + "::apply" and strip(calls[0]["locargs"][1]) == ("param", 2)
            rep.check(good, "keystream", half + "::" + meth, "delegates", "raw operation = InnerCrypto::apply(data)", "raw operation of %s is not a plain keystream application" % half)
    rep.check(SERVER_ENCRYPT != SERVER_DECRYPT and len(set(v for v in seen.values() if v)) == 2, "direction", "wrath_header", "two-distinct-constants", "the two directions use different constants", "directions share a constant")
    # ---------------- PRGA
    fn = "rc4::Rc4::pseudo_random_generation"
    se = ctx.deep.run(fn)
    prga_self = ("deref", ("param", 1))
    prga_ret = None
    if se is None and prga_closure(ctx) is not None:
        # the step is the closure of the keystream iterator: it works on the Rc4 it captured
        # (`*closure.0`) and yields Some(byte) on every call
        fn = prga_closure(ctx)[0]
        se = ctx.deep.run(fn)
        prga_self = ("deref", ("field", ("deref", ("param", 1)), 0))
        if se is not None:
            r_ = strip(se.ret)
            if r_[0] == "agg" and r_[2] == "std::option::Option" and r_[3] == 1:
                prga_ret = r_[4][0]
            else:
                rep.violation("prga", fn, "always-some", "the keystream closure does not yield Some(byte) on every call: %s" % show(r_, maxdepth=2), se.body.loc())
                se = None
    if se is None:
        rep.violation("prga", fn, "anchor", "not found")
    else:
        fs = fb.adt_fields("rc4::Rc4")
        kinds = [fb.ty(f["ty"]) for f in fs]
        si = [i for i, t in enumerate(kinds) if t.k == "array" and t.len == 256]
        # (a counter declared `Wrapping<u8>` is the same byte with wrapping operators spelled `+`)
        cnt = [i for i, t in enumerate(kinds) if (t.k == "int" and t.bits == 8 and not t.signed) or t.s in ("std::num::Wrapping<u8>", "core::num::Wrapping<u8>")]
        rep.check(len(si) == 1 and len(cnt) == 2 and len(fs) == 3, "prga", "rc4::Rc4", "state-shape", "state = [u8; 256] + two u8 counters (wrap at 256 by type)", "Rc4 fields are %s" % [t.s for t in kinds])
        if len(si) == 1 and len(cnt) == 2:
            # roles of the two counters: i is the one incremented by the constant 1
            eff = se.param_effects().get(1)
            if prga_ret is not None:
                # state of the captured cipher when the closure returns
                fin = [st_.get(prga_self) for st_ in se.final_states.values() if prga_self in st_]
                eff = fin[0] if len(fin) == 1 else None
            upd = {}
            t = eff
            while t is not None and t[0] == "upd" and t[2][0] == "f":
                upd.setdefault(t[2][1], t[3])
                t = t[1]
            self_ = prga_self
            fi = fj = None
            for c in cnt:
                n = arith.norm(upd.get(c, ("?",)), {strip(("field", self_, c)): "c"})
                if n == wadd(S("c"), I(1)):
                    fi = c
            fj = [c for c in cnt if c != fi][0] if fi is not None else None
            if fi is None:
                rep.violation("prga", fn, "i-update", "no counter is updated as i = i +8 1", se.body.loc())
            else:
                env = {strip(("field", self_, fi)): "i", strip(("field", self_, fj)): "j", strip(("field", self_, si[0])): "S"}
                i1 = wadd(S("i"), I(1))
                j1 = wadd(S("j"), ("idx", S("S"), i1))
                S1 = ("swap", S("S"), i1, j1)
                out = ("idx", S1, wadd(("idx", S1, i1), ("idx", S1, j1)))
                nj = arith.norm(upd.get(fj, ("?",)), env)
                nS = arith.norm(upd.get(si[0], ("?",)), env)
                def table_len(x):
                    """`self.state.len()`: the table is a fixed-size array, its length is in its type"""
                    y = None
                    if x[0] == "len":
                        y = strip(x[1])
                    elif util.is_call(x) and x[1].split("::")[-1] == "len" and ("slice" in x[1] or "array" in x[1]) and len(x[2]) == 1:
                        y = strip(x[2][0])
                    if y is None:
                        return None
                    while y[0] in ("after", "upd", "ref", "refv", "deref"):
                        y = strip(y[3] if y[0] == "after" else y[1])
                    if y == strip(("field", self_, si[0])):
                        n_ = ctx.fb.ty(ctx.fb.adt_fields("rc4::Rc4")[si[0]]["ty"]).len
                        return ("int", n_, "usize") if n_ is not None else None
                    return None
                no = arith.norm(util.map_term(strip(prga_ret if prga_ret is not None else se.ret), table_len), env)
                rep.check(nj == j1, "prga", fn, "j-update", "j' = j +8 S[i']", "j update is %s, expected %s" % (arith.show(nj), arith.show(j1)), se.body.loc())
                rep.check(nS == S1, "prga", fn, "swap", "S' = swap(S, i', j')", "state update is %s" % arith.show(nS)[:200], se.body.loc())
                def sr(x):
                    # S'[i'] and S'[j'] may be spelled by the values loaded before the exchange
                    y = arith.swap_reads(x)
                    return ("idx", y[1], arith.swap_reads(y[2])) if y[0] == "idx" else y
                rep.check(no == out or sr(no) == sr(out), "prga", fn, "output", "out = S'[S'[i'] +8 S'[j']]", "output byte is %s" % arith.show(no)[:300], se.body.loc())
                rep.check(t == self_ and set(upd) == {fi, fj, si[0]}, "prga", fn, "frame", "writes exactly i, j, S", "PRGA writes other state", se.body.loc())
    # ---------------- keystream application loop
    fn = "rc4::Rc4::apply_keystream"
    se = ctx.wrap.run(fn)
    if se is None:
        rep.violation("keystream", fn, "anchor", "not found")
    else:
        body = se.body
        loops = util.for_loops(ctx, se)
        good = False
        why = "no single whole-slice loop"
        if len(loops) == 1 and not loops[0]["only_exit"]:
            why = "the loop can be left before the last byte (break / return inside)"
        elif len(loops) == 1:
            lp = loops[0]
            ini = strip(lp["init"] or ("?",))
            if util.is_call(ini, "core::slice::<impl [T]>::iter_mut"):
                old = se.call_old.get((ini[3][:2], 0))
                ini = ("param", 2) if old == ("deref", ("param", 2)) else ini
            trav = ini == ("param", 2) and "slice::IterMut" in (lp["resolved"] or "")
            elem_in = ("deref", lp["elem"])
            writes = [(k, v) for k, v in se.assigns.items() if v[0] == elem_in]
            zipped = False
            if util.is_call(ini, "std::iter::Iterator::zip") and len(ini[2]) == 2 and "iter::Zip" in (lp["resolved"] or ""):
                # data.iter_mut().zip(self.keystream()): the data is asked first, so the closure runs
                # once per data byte and not once more; byte k is xored with step k
                left, right = strip(ini[2][0]), ini[2][1]
                if util.is_call(left, "core::slice::<impl [T]>::iter_mut"):
                    old = se.call_old.get((left[3][:2], 0))
                    zipped = old == ("deref", ("param", 2)) and is_keystream_iter(ctx, right, ("param", 1))
                if zipped:
                    slot = ("deref", ("field", lp["elem"], 0))
                    kb = ("field", lp["elem"], 1)
                    ws = [(k, v) for k, v in se.assigns.items() if strip(v[0]) == strip(slot)]
                    idom = cfg.dominators(body)
                    uncond = len(ws) == 1 and all(cfg.dominates(idom, ws[0][0][0], t_) for t_, h_ in cfg.back_edges(body))
                    val = strip(ws[0][1][1]) if len(ws) == 1 else ("?",)
                    good = uncond and val[0] == "binop" and val[1] == "BitXor" and {strip(val[2]), strip(val[3])} == {strip(slot), strip(kb)}
                    why = "byte ^= keystream item, the data on the left of the zip: one PRGA step per byte, in order" if good else "zip form: byte is written with %s" % show(val, maxdepth=3)
            if zipped:
                pass
            elif trav and len(writes) == 1:
                val = strip(writes[0][1][1])
                # old ^ prga(self)
                if val[0] == "binop" and val[1] == "BitXor":
                    ops = [val[2], val[3]]
                    pr = [o for o in ops if util.is_call(o, "rc4::Rc4::pseudo_random_generation")]
                    inn = [o for o in ops if o == strip(elem_in)]
                    idom = cfg.dominators(body)
                    be = cfg.back_edges(body)
                    uncond = all(cfg.dominates(idom, writes[0][0][0], t) for t, h in be)
                    n_prga = sum(1 for i in se.term_info.values() if i.get("k") == "call" and i["name"] == "rc4::Rc4::pseudo_random_generation")
                    good = len(pr) == 1 and len(inn) == 1 and uncond and n_prga == 1
                    why = "byte ^= prga(), one step per byte, in order" if good else "xor operands %s" % [show(o, maxdepth=2) for o in ops]
                else:
                    why = "byte is written with %s" % show(val, maxdepth=3)
            elif ini[0] == "agg" and ini[2] == "std::ops::Range" and ini[4][0][:2] == ("int", 0) and util.numnorm(ini[4][1]) == ("len", ("param", 2)) and "Range" in (lp["resolved"] or ""):
                # for n in 0..stream.len() { stream[n] ^= self.prga() }: every position once, in order
                n_t = strip(lp["elem"])
                P2 = strip(("deref", ("param", 2)))
                ws = [(k, v) for k, v in se.assigns.items() if v[0][0] == "index" and strip(v[0][2]) == n_t and strip(v[0][1]) == P2]
                others = [(k, v) for k, v in se.assigns.items() if v[0][0] in ("index", "cindex", "deref") and (k, v) not in ws and any(x == ("param", 2) for x in walk(v[0]))]
                if len(ws) == 1 and not others:
                    val = strip(ws[0][1][1])
                    idom = cfg.dominators(body)
                    uncond = all(cfg.dominates(idom, ws[0][0][0], t) for t, h in cfg.back_edges(body))
                    n_prga = sum(1 for i in se.term_info.values() if i.get("k") == "call" and i["name"] == "rc4::Rc4::pseudo_random_generation")
                    ops = [val[2], val[3]] if val[0] == "binop" and val[1] == "BitXor" else []
                    pr = [o for o in ops if util.is_call(o, "rc4::Rc4::pseudo_random_generation")]
                    # the other operand: the byte at the same position as the loop found it
                    inn = [o for o in ops if strip(o)[0] == "index" and strip(strip(o)[2]) == n_t and (strip(strip(o)[1]) == P2 or (strip(strip(o)[1])[0] == "phi" and strip(strip(o)[1])[3] == ("deref", ("param", 2))))]
                    loop = set()
                    for e in cfg.back_edges(body):
                        loop |= cfg.natural_loop(body, e)
                    exits = {(b_, s_) for b_ in loop for s_ in body.succs(b_) if s_ not in loop and body.blocks[s_]["term"]["k"] != "unreachable"}
                    good = len(pr) == 1 and len(inn) == 1 and uncond and n_prga == 1 and exits == {(lp["switch_bb"], lp["exit_bb"])}
                    why = "stream[n] ^= prga() for n = 0..len, one step per byte, in order" if good else "index loop: byte is written with %s" % show(val, maxdepth=3)
                else:
                    why = "index loop with %d stores per byte" % len(ws)
            else:
                why = "traversal %s, stores per byte %d" % (lp["resolved"], len(writes))
        fes = [i for i in se.term_info.values() if i.get("k") == "call" and i["name"].endswith("::for_each")] if not loops else []
        if len(fes) == 1 and fes[0]["name"].startswith("<std::slice::IterMut<") and not cfg.back_edges(body):
            # stream.iter_mut().for_each(|s| *s ^= self.prga()): the closure runs once per byte, in order
            f = fes[0]
            it = strip(f["args"][0])
            over = util.is_call(it, "core::slice::<impl [T]>::iter_mut") and se.call_old.get((it[3][:2], 0)) == ("deref", ("param", 2))
            cl = f["locargs"][1] if len(f.get("locargs", ())) > 1 else ("?",)
            other_calls = [i for i in se.term_info.values() if i.get("k") == "call" and i is not f and i["name"] != "core::slice::<impl [T]>::iter_mut"]
            if over and cl[0] == "agg" and cl[1] == "closure" and len(cl[4]) == 1 and cl[4][0] == ("ref", ("local", 1), True) and not other_calls:
                cse = ctx.flat.run(cl[2])
                if cse is not None and not cfg.back_edges(cse.body) and len(cse.final_states) == 1:
                    fin = next(iter(cse.final_states.values()))
                    ccalls = [i for i in cse.term_info.values() if i.get("k") == "call"]
                    selfp = ("deref", ("deref", ("deref", ("field", ("deref", ("param", 1)), 0))))
                    one = len(ccalls) == 1 and ccalls[0]["name"] == "rc4::Rc4::pseudo_random_generation" and ccalls[0]["locargs"][0][0] == "ref" and strip(ccalls[0]["locargs"][0][1]) == strip(selfp)
                    val = strip(fin.get(("deref", ("param", 2)), ("?",)))
                    ops = [val[2], val[3]] if val[0] == "binop" and val[1] == "BitXor" else []
                    pr = [o for o in ops if util.is_call(o, "rc4::Rc4::pseudo_random_generation")]
                    inn = [o for o in ops if strip(o) == strip(("deref", ("param", 2)))]
                    stores = [k for k in fin if k[0] == "deref" and strip(k) not in (strip(("deref", ("param", 2))), strip(selfp))]
                    good = one and len(pr) == 1 and len(inn) == 1 and not stores
                    why = "for_each over the whole slice: byte ^= prga(), one step per byte, in order" if good else "for_each closure writes the byte with %s" % show(val, maxdepth=3)
        rep.check(good, "keystream", fn, "xor-one-step-per-byte", why, "keystream application is not `byte ^= one PRGA step` for every byte in order: " + why, body.loc())
    # ---------------- KSA
    ksa(ctx, rep)
    # ---------------- state writers
    fc = util.faithful_clones(ctx)        # a proved field-for-field copy creates no new state
    ws = [w for w in ciphers.field_writers(fb, "rc4::Rc4") if w[0] not in fc]
    allowed = {"rc4::Rc4::new", "rc4::Rc4::key_scheduling_algorithm", "rc4::Rc4::pseudo_random_generation", "rc4::Rc4::key_scheduling_algorithm::{closure#1}", "rc4::Rc4::key_scheduling_algorithm::{closure#0}"}
    pc = prga_closure(ctx)
    if pc is not None and not ctx.has("rc4::Rc4::pseudo_random_generation"):
        allowed |= {pc[0], pc[1]}           # the step closure and the method that wraps it in from_fn
    bad = [w for w in ws if w[1] in ("store", "mutborrow", "aggregate") and w[0] not in allowed]
    rep.check(not bad, "state-writers", "rc4::Rc4", "field-census", "RC4 state written only by new/KSA/PRGA", "RC4 state is written elsewhere: %s" % [(w[0], w[3]) for w in bad])
    nse = ctx.wrap.run("rc4::Rc4::new")
    good = False
    if nse is not None:
        r = strip(nse.ret)
        good = r[0] == "after" and util.is_call(r[1], "rc4::Rc4::key_scheduling_algorithm") and strip(r[1][2][1]) == ("param", 1) and r[3][0] == "agg" and all(o[:2] == ("int", 0) or (o[0] == "repeat" and o[1][:2] == ("int", 0)) or identity_table(o) for o in r[3][4])
        if not good and r[0] == "agg" and r[2] == "rc4::Rc4":
            # the KSA as a function returning the table: Rc4 { state: KSA(key), i: 0, j: 0 }
            tabs = [o for o in r[4] if util.is_call(strip(o), "rc4::Rc4::key_scheduling_algorithm") and tuple(strip(a) for a in strip(o)[2]) == (("param", 1),)]
            zeros = [o for o in r[4] if o[:2] == ("int", 0)]
            good = len(tabs) == 1 and len(zeros) == len(r[4]) - 1
    rep.check(good, "state-writers", "rc4::Rc4::new", "init", "new = KSA(key) over a fresh state (zeroed or identity table), counters 0", "Rc4::new is not {fresh state, i = j = 0} followed by the KSA over the whole key")


def identity_table(t):
    """t is the explicit array [0, 1, .. 255]"""
    t = strip(t)
    if t[0] == "agg" and t[1] == "array" and len(t[4]) == 256:
        return all(arith.norm(x) == I(k) for k, x in enumerate(t[4]))
    if t[0] == "bytes":
        return bytes(t[1]) == bytes(range(256))
    return False


def new_initial_state(ctx):
    """(initial table value, counters zero?, key passed on whole?) of Rc4::new, for the two
    spellings of the KSA (method on a fresh object / function returning the table)"""
    nse = ctx.wrap.run("rc4::Rc4::new")
    if nse is None:
        return None
    r = strip(nse.ret)
    fs = ctx.fb.adt_fields("rc4::Rc4")
    si = [i for i, f in enumerate(fs) if ctx.fb.ty(f["ty"]).k == "array"]
    if not si:
        return None
    if r[0] == "after" and util.is_call(r[1], "rc4::Rc4::key_scheduling_algorithm") and r[3][0] == "agg":
        ops = r[3][4]
        zeros = all(o[:2] == ("int", 0) for k, o in enumerate(ops) if k != si[0])
        return ops[si[0]], zeros, strip(r[1][2][1]) == ("param", 1), "method"
    if r[0] == "agg" and r[2] == "rc4::Rc4":
        tab = strip(r[4][si[0]])
        zeros = all(o[:2] == ("int", 0) for k, o in enumerate(r[4]) if k != si[0])
        if util.is_call(tab, "rc4::Rc4::key_scheduling_algorithm"):
            return None, zeros, tuple(strip(a) for a in tab[2]) == (("param", 1),), "function"
    return None


def ksa(ctx, rep):
    """KSA = identity table, then for n = 0..256 in order with the key bytes cycled:
    j = j +8 S[n] +8 key byte; swap(S[n], S[j]); j starts at 0.  The identity table may be
    written by a first pass of the KSA or handed in by Rc4::new; the mixing pass may be a
    for_each closure over captured (j, S), a fold with accumulator j, or a for loop."""
    fn = "rc4::Rc4::key_scheduling_algorithm"
    se = ctx.flat.run(fn)
    if se is None:
        rep.violation("ksa", fn, "anchor", "not found")
        return
    body = se.body
    calls = [se.term_info[b] for b in sorted(se.term_info) if se.term_info[b].get("k") == "call"]
    drivers = [c for c in calls if c["name"] == "std::iter::Iterator::for_each" or c["name"].endswith("as std::iter::Iterator>::fold") or c["name"] == "std::iter::Iterator::fold"]
    if len(drivers) == 0:
        return ksa_loops(ctx, rep, se)
    if util.for_loops(ctx, se) and not any(util.is_call(strip(c["args"][0]), "std::iter::Iterator::zip") for c in drivers):
        # the mixing pass is a loop (the identity pass may still be a for_each closure)
        return ksa_loops(ctx, rep, se)
    form = ksa_form(ctx, se)
    if form is None:
        rep.violation("ksa", fn, "shape", "the KSA neither works on self.state nor returns a local [u8; 256] table", body.loc())
        return
    key_param, table_loc, in_self = form

    def is_mix_iter(it):
        it = strip(it)
        if not util.is_call(it, "std::iter::Iterator::zip"):
            return False
        a, b = it[2]
        rng_ok = a[0] == "agg" and a[2] == "std::ops::Range" and tuple(x[:2] for x in a[4]) == (("int", 0), ("int", 256))
        src = strip(b[2][0]) if util.is_call(b, "std::iter::Iterator::cycle") else None
        if src is not None and util.is_call(src) and src[1] in ("std::iter::Iterator::copied", "std::iter::Iterator::cloned"):
            src = strip(src[2][0])       # key.iter().copied().cycle(): the same bytes, by value
        cyc_ok = src is not None and util.is_call(src, "core::slice::<impl [T]>::iter") and strip(src[2][0]) == ("param", key_param)
        return rng_ok and cyc_ok

    mix = [c for c in drivers if is_mix_iter(c["args"][0])]
    init = [c for c in drivers if c not in mix]
    # ---- identity table
    init_ok = False
    how = "no identity initialisation"
    if len(init) == 1 and init[0]["name"] == "std::iter::Iterator::for_each":
        it1 = strip(init[0]["args"][0])
        ok1 = util.is_call(it1, "std::iter::Iterator::enumerate") and util.is_call(it1[2][0], "core::slice::<impl [T]>::iter_mut")
        if ok1:
            im = se.term_info.get(it1[2][0][3][1], {})
            la = (im.get("locargs") or (("?",),))[0]
            ok1 = la[0] == "ref" and la[1] == table_loc
        cl0 = init[0]["locargs"][1]
        c0 = ctx.flat.run(cl0[2]) if cl0[0] == "agg" and cl0[1] == "closure" else None
        if c0 is not None and ok1:
            fin = list(c0.final_states.values())
            if len(fin) == 1:
                st = {k: v for k, v in fin[0].items() if k[0] == "deref"}
                for root, v in st.items():
                    # `n as u8`, or `u8::try_from(n).expect(..)`: the same byte wherever the latter
                    # returns (that it always does is rule C14|unwrap, re-filed under C06|totality)
                    if strip(root) == ("field", ("param", 2), 1) and util.numnorm(v) == ("cast", "IntToInt", ("field", ("param", 2), 0), "u8"):
                        init_ok = len(st) == 1
        how = "first pass: S[n] = n over iter_mut().enumerate()"
        # the identity pass must come first
        init_ok = init_ok and bool(mix) and init[0]["site"][1] < mix[0]["site"][1] and cfg.must_pass_block(body, init[0]["site"][1], mix[0]["site"][1])
    elif len(init) == 0 and _loop_identity_init(ctx, se, table_loc) is not None:
        # the identity pass as a `for` loop, the mixing pass as a for_each closure
        h_ = _loop_identity_init(ctx, se, table_loc)
        init_ok = bool(mix) and h_ < mix[0]["site"][1] and cfg.must_pass_block(body, h_, mix[0]["site"][1])
        how = "first pass: S[n] = n for n = 0..256 (loop)"
    elif len(init) == 0:
        ni = new_initial_state(ctx)
        if ni is not None and ni[0] is not None and in_self:
            init_ok = identity_table(ni[0])
            how = "Rc4::new hands in the identity table [0, 1, .. 255]"
    rep.check(init_ok, "ksa", fn, "identity-init", "S[n] = n for every n before mixing (%s)" % how, "state initialisation is not S[n] = n for every n before the mixing pass (%s)" % how, body.loc())
    # ---- mixing pass
    rep.check(len(mix) == 1, "ksa", fn, "index-and-key-schedule", "i = 0..256 in order zipped with key bytes cycled (key[i mod len])", "mixing pass does not iterate (0..256) zipped with the cycled key", body.loc())
    if len(mix) != 1:
        return
    m = mix[0]
    is_fold = m["name"].endswith("fold")
    cl = m["locargs"][2 if is_fold else 1]
    j0_ok = False
    c1 = None
    good = False
    desc = "?"
    if cl[0] == "agg" and cl[1] == "closure":
        caps = cl[4]
        st_call = se.in_state.get(m["site"][1], {})

        def cap_target(c):
            """the place a captured `&mut` leads to, looking through a local that itself holds a reference"""
            if c[0] != "ref":
                return None
            L = c[1]
            if L == ("local", 1) and in_self:
                return table_loc[1]          # &mut self
            if L[0] == "local":
                v = se.read(st_call, L)
                if v[0] == "ref":
                    return v[1]              # a local holding `&mut self.state`
            return L

        tab_caps = [k for k, c in enumerate(caps) if cap_target(c) in (table_loc, table_loc[1] if in_self else None)]
        j_caps = [k for k, c in enumerate(caps) if c[0] == "ref" and c[1][0] == "local" and k not in tab_caps]
        if is_fold:
            j0_ok = strip(m["args"][1])[:2] == ("int", 0) and len(tab_caps) == 1 and len(caps) == 1
        else:
            if len(j_caps) == 1 and len(tab_caps) == 1 and len(caps) == 2:
                j0 = st_call.get(caps[j_caps[0]][1])
                j0_ok = j0 is not None and j0[:2] == ("int", 0)
        c1 = ctx.flat.run(cl[2])
        if c1 is not None and j0_ok:
            fin = list(c1.final_states.values())
            if len(fin) == 1:
                st = {k: v for k, v in fin[0].items() if k[0] == "deref"}
                fs = ctx.fb.adt_fields("rc4::Rc4")
                si = [i for i, f in enumerate(fs) if ctx.fb.ty(f["ty"]).k == "array"]
                tc = tab_caps[0]
                whole_self = cap_target(caps[tc]) == (table_loc[1] if in_self else None) and in_self
                s_term = ("field", ("field", ("param", 1), tc), si[0]) if whole_self else ("field", ("param", 1), tc)
                item = ("param", 3) if is_fold else ("param", 2)
                envm = {s_term: "S", ("field", item, 0): "n", ("field", item, 1): "k"}
                if is_fold:
                    envm[("param", 2)] = "j"
                else:
                    envm[("field", ("param", 1), j_caps[0])] = "j"
                want_j = wadd(wadd(S("j"), ("idx", S("S"), S("n"))), S("k"))
                want_S = ("swap", S("S"), S("n"), want_j)
                got_j = arith.norm(c1.ret, envm) if is_fold else None
                got_S = None
                others = 0
                for root, v in st.items():
                    sr = strip(root)
                    if not is_fold and sr == ("field", ("param", 1), j_caps[0]):
                        got_j = arith.norm(v, envm)
                    elif sr == ("field", ("param", 1), tc):
                        if whole_self and v[0] == "upd" and v[2] == ("f", si[0]):
                            got_S = arith.norm(v[3], envm)
                        elif not whole_self:
                            got_S = arith.norm(v, envm)
                        else:
                            others += 1
                    else:
                        others += 1
                good = arith.assoc(got_j) == arith.assoc(want_j) and arith.assoc(got_S) == arith.assoc(want_S) and others == 0
                desc = "j' = %s; S' = %s" % (arith.show(got_j) if got_j else "?", arith.show(got_S)[:120] if got_S else "?")
    rep.check(j0_ok, "ksa", fn, "j-starts-at-0", "j = 0 before mixing; the closure works on (j, this table)", "mixing closure is not started with j = 0 over this state", body.loc())
    rep.check(good, "ksa", cl[2] if cl[0] == "agg" else fn, "mixing-step", "j' = j +8 S[n] +8 key byte; swap(S[n], S[j'])", "KSA mixing step is " + desc, c1.body.loc() if c1 else None)


def skip_helper(ctx, fn):
    """fn(&mut Rc4, n) that performs exactly n PRGA steps and nothing else: one loop over 0..n
    whose body calls pseudo_random_generation(self) once, unconditionally; no other call, no
    store through self.  Returns the index of the count parameter, or None."""
    if fn not in ctx.fb.bodies or not fn.startswith("rc4::Rc4::"):
        return None
    se = ctx.flat.run(fn)
    if se is None:
        return None
    body = se.body
    loops = util.for_loops(ctx, se)
    be = cfg.back_edges(body)
    if len(loops) != 1 or len(be) != 1:
        return None
    ini = strip(loops[0]["init"] or ("?",))
    if not (ini[0] == "agg" and ini[2] == "std::ops::Range" and ini[4][0][:2] == ("int", 0) and strip(ini[4][1])[0] == "param"):
        return None
    calls = [(bb, i) for bb, i in se.term_info.items() if i.get("k") == "call"]
    other = [i["name"] for bb, i in calls if not (i["name"].endswith("into_iter") or i["name"].endswith("::next") or i["name"] == "rc4::Rc4::pseudo_random_generation")]
    steps = [(bb, i) for bb, i in calls if i["name"] == "rc4::Rc4::pseudo_random_generation"]
    if other or len(steps) != 1:
        return None
    bb, i = steps[0]
    la = i["locargs"][0]
    if not (la[0] == "ref" and la[1] == ("deref", ("param", 1))):
        return None
    idom = cfg.dominators(body)
    if not all(cfg.dominates(idom, bb, t) for t, h in be) or not cfg.must_pass_edge(body, (loops[0]["switch_bb"], loops[0]["body_bb"]), bb):
        return None
    # no direct store through self
    for (bi, si), (loc, v) in se.assigns.items():
        root = loc
        while root[0] in ("field", "index", "cindex", "subslice", "downcast"):
            root = root[1]
        if root == ("deref", ("param", 1)):
            return None
    return strip(ini[4][1])[1]


def ksa_form(ctx, se):
    """(key parameter, location of the permutation table, table is self.state?) for the two
    spellings: `fn ksa(&mut self, key)` working on self.state, and `fn ksa(key) -> [u8; 256]`
    returning a local table"""
    fb = ctx.fb
    body = se.body
    fs = fb.adt_fields("rc4::Rc4")
    si = [i for i, f in enumerate(fs) if fb.ty(f["ty"]).k == "array"]
    ins = [fb.ty(i) for i in body.d["inputs"]]
    if len(ins) == 2 and ins[0].k == "ref" and ins[0].peel_refs().path == "rc4::Rc4" and si:
        return 2, ("field", ("deref", ("param", 1)), si[0]), True
    out = fb.ty(body.d["output"])
    if len(ins) == 1 and out.k == "array" and out.len == 256:
        # the returned value is the final content of one local table
        fin = list(se.final_states.values())
        cands = [n for n in range(len(ins) + 1, len(body.locals)) if body.local_ty(n) is not None and body.local_ty(n).k == "array" and body.local_ty(n).len == 256]
        for n in cands:
            if fin and all(se.read(st, ("local", n)) == se.ret for st in fin):
                return 1, ("local", n), False
    return None


def _loop_identity_init(ctx, se, table_loc):
    """a `for` loop that writes S[n] = n for n = 0..256 (the counter from enumerate(), a zipped
    0..=255 or the range itself): its head block, or None"""
    from rules import algos, loopsem

    def lens(base):
        if base == table_loc or strip(base) == strip(table_loc):
            return lambda n: 256
        return None

    sem = loopsem.Sem(ctx, se, lens)
    for head, (elem, src, lp) in algos.for_info(ctx, se).items():
        r = sem.statements(lp)
        if r is not None and len(r[0]) == 1:
            d, A, v = r[0][0]
            if d == table_loc and A == (1, 0) and v[0] == "cnt" and v[1] == (1, 0) and r[1](0) >= 256:
                return head
    return None


def _closure_identity_init(ctx, se, call, table_loc):
    """`table.iter_mut().enumerate().for_each(|(n, x)| *x = n as u8)` at the for_each call `call`"""
    if call["name"] != "std::iter::Iterator::for_each":
        return False
    it1 = strip(call["args"][0])
    ok1 = util.is_call(it1, "std::iter::Iterator::enumerate") and util.is_call(it1[2][0], "core::slice::<impl [T]>::iter_mut")
    if ok1:
        im = se.term_info.get(it1[2][0][3][1], {})
        la = (im.get("locargs") or (("?",),))[0]
        ok1 = la[0] == "ref" and la[1] == table_loc
    cl0 = call["locargs"][1]
    c0 = ctx.flat.run(cl0[2]) if cl0[0] == "agg" and cl0[1] == "closure" else None
    if c0 is None or not ok1:
        return False
    fin = list(c0.final_states.values())
    if len(fin) != 1:
        return False
    st = {k: v for k, v in fin[0].items() if k[0] == "deref"}
    for root, v in st.items():
        if strip(root) == ("field", ("param", 2), 1) and util.numnorm(v) == ("cast", "IntToInt", ("field", ("param", 2), 0), "u8"):
            return len(st) == 1
    return False


def ksa_loops(ctx, rep, se):
    """the KSA written with two `for` loops instead of for_each closures"""
    from rules import algos

    fn = "rc4::Rc4::key_scheduling_algorithm"
    body = se.body
    fi = algos.for_info(ctx, se)
    fs = ctx.fb.adt_fields("rc4::Rc4")
    si = [i for i, f in enumerate(fs) if ctx.fb.ty(f["ty"]).k == "array"][0]
    form = ksa_form(ctx, se)
    if form is None:
        rep.violation("ksa", fn, "shape", "the KSA neither works on self.state nor returns a local [u8; 256] table", body.loc())
        return
    key_param, table_loc, in_self = form
    from rules import loopsem

    def lens(base):
        if base == table_loc or strip(base) == strip(table_loc):
            return lambda n: 256
        return None

    sem = loopsem.Sem(ctx, se, lens)
    p1 = p2 = None
    for head, (elem, src, lp) in fi.items():
        if util.is_call(src, "std::iter::Iterator::zip") and strip(src[2][0])[0] == "agg" and strip(src[2][0])[2] == "std::ops::Range":
            p2 = (head, elem, src, lp)
            continue
        if util.is_call(src, "std::iter::Iterator::enumerate") and util.is_call(strip(src[2][0]), "std::iter::Iterator::take") and util.is_call(strip(strip(src[2][0])[2][0]), "std::iter::Iterator::cycle"):
            # key.iter().cycle().take(256).enumerate(): item n is (n, key[n mod len]) like (0..256).zip(cycle)
            p2 = (head, elem, src, lp)
            continue
        r = sem.statements(lp)
        if r is not None and len(r[0]) == 1:
            d, A, v = r[0][0]
            # S[i] := i for i = 0..256 (the counter may come from enumerate() or from a zipped 0..=255)
            if d == table_loc and A == (1, 0) and v[0] == "cnt" and v[1] == (1, 0) and r[1](0) >= 256:
                p1 = (head, elem, src, lp)
    if not p2 or len(fi) != (2 if p1 else 1):
        rep.violation("ksa", fn, "shape", "expected the identity-init pass and the key-mixing pass (for_each or for loops)", body.loc())
        return
    init_ok = p1 is not None and p1[0] < p2[0] and cfg.must_pass_block(body, p1[0], p2[0])
    how = "first pass: S[n] = n for n = 0..256"
    fes = [i for i in se.term_info.values() if i.get("k") == "call" and i["name"] == "std::iter::Iterator::for_each"]
    if p1 is None and len(fes) == 1:
        # the identity pass as a for_each closure, the mixing pass as a loop
        init_ok = _closure_identity_init(ctx, se, fes[0], table_loc) and cfg.must_pass_block(body, fes[0]["site"][1], p2[0])
        how = "first pass: S[n] = n over iter_mut().enumerate()"
    elif p1 is None:
        ni = new_initial_state(ctx)
        init_ok = ni is not None and ni[0] is not None and in_self and identity_table(ni[0])
        how = "Rc4::new hands in the identity table [0, 1, .. 255]"
    rep.check(init_ok, "ksa", fn, "identity-init", "S[n] = n for every n before mixing (%s)" % how, "state initialisation is not S[n] = n for every n before the mixing pass", body.loc())
    # pass 2: for (n, k) in (0..256).zip(key.iter().cycle())
    head, elem, src, lp = p2
    a, b = (strip(src[2][0]), strip(src[2][1])) if len(src[2]) == 2 else (strip(src[2][0]), ("?",))

    def is_256(x):
        x = util.numnorm(x)
        if x[:2] == ("int", 256):
            return True
        # the length of the 256-byte table itself
        if x[0] == "len":
            y = strip(x[1])
            while y[0] in ("after", "phi") and y[0] == "after":
                y = strip(y[3])
            return y == strip(table_loc) or (y[0] == "field" and y[2] == si and in_self)
        return False

    if util.is_call(src, "std::iter::Iterator::enumerate"):
        tk = strip(src[2][0])
        b = strip(tk[2][0])
        rng_ok = is_256(tk[2][1])            # exactly 256 items, counted from 0 by enumerate()
    else:
        rng_ok = a[0] == "agg" and a[2] == "std::ops::Range" and a[4][0][:2] == ("int", 0) and is_256(a[4][1])
    cyc_ok = util.is_call(b, "std::iter::Iterator::cycle") and util.is_call(strip(b[2][0]), "core::slice::<impl [T]>::iter") and strip(strip(b[2][0])[2][0]) == ("param", key_param)
    def only_exit(lp_):
        """the loop is left only when its iterator is exhausted (no break / return inside)"""
        loop_ = set()
        for e_ in cfg.back_edges(body):
            if e_[1] == lp_["next_bb"]:
                loop_ |= cfg.natural_loop(body, e_)
        ex_ = {(b_, s_) for b_ in loop_ for s_ in body.succs(b_) if s_ not in loop_ and body.blocks[s_]["term"]["k"] != "unreachable"}
        return ex_ == {(lp_["switch_bb"], lp_["exit_bb"])}

    all_rounds = only_exit(lp) and (p1 is None or only_exit(p1[3]))
    rep.check(rng_ok and cyc_ok and all_rounds, "ksa", fn, "index-and-key-schedule", "i = 0..256 in order zipped with key bytes cycled (key[i mod len]), every round", "mixing pass does not iterate (0..256) zipped with the cycled key" if all_rounds else "a KSA pass can be left before its last round (break / return inside the loop)", body.loc())
    st = algos.loop_state(se, head)
    j = None
    selfst = None
    for key, (init, step) in st.items():
        if key[0] == "local" and strip(init)[:2] == ("int", 0):
            j = (key, algos.phi_of(se, head, key), step)
        if key == (("deref", ("param", 1)) if in_self else table_loc):
            selfst = (key, algos.phi_of(se, head, key), init, step)
    rep.check(j is not None, "ksa", fn, "j-starts-at-0", "j = 0 before mixing", "no mixing counter starting at 0", body.loc())
    good = False
    desc = "?"
    if j is not None and selfst is not None:
        env = {strip(j[1]): "j", (("field", strip(selfst[1]), si) if in_self else strip(selfst[1])): "S", ("field", elem, 0): "n", strip(("deref", ("field", elem, 1))): "k", ("field", elem, 1): "k"}
        want_j = wadd(wadd(S("j"), ("idx", S("S"), S("n"))), S("k"))
        got_j = arith.norm(j[2], env)
        stp = selfst[3]
        got_S = None
        if in_self and stp[0] == "upd" and stp[1] == selfst[1] and stp[2] == ("f", si):
            got_S = arith.norm(stp[3], env)
        elif not in_self:
            got_S = arith.norm(stp, env)
        good = arith.assoc(got_j) == arith.assoc(want_j) and arith.assoc(got_S) == arith.assoc(("swap", S("S"), S("n"), want_j))
        desc = "j' = %s; S' = %s" % (arith.show(got_j), arith.show(got_S)[:120] if got_S else "?")
    rep.check(good, "ksa", fn, "mixing-step", "j' = j +8 S[n] +8 key byte; swap(S[n], S[j'])", "KSA mixing step is " + desc, body.loc())
