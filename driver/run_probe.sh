#!/bin/sh
# dev helper: extract facts for /repo (or $1) with --features matrix-card into $T/facts.json
REPO=${1:-/repo}; T=${2:-/tmp/wsf_probe}; mkdir -p $T
cd $REPO && RUSTC_ICE=0 LD_LIBRARY_PATH=$(rustc +nightly --print sysroot)/lib RUSTFLAGS="-Zmir-opt-level=0 -Awarnings" RUSTC_WORKSPACE_WRAPPER=/verif/driver/target/debug/wowsrp-facts WOWSRP_FACTS_OUT=$T/facts.json WOWSRP_FACTS_NONCE=abc CARGO_TARGET_DIR=$T/target cargo +nightly check --offline --lib --features matrix-card 2>&1 | grep -v "^\s*$" | head -${3:-30}
