"""C13 - credential strings: exactly 1..16 printable ASCII bytes, upper-cased.

Decides: the byte-length gate (`str::len` > 16 or empty => StringTooLong) dominates everything
else and its constant equals the array length; the set of `char` values that reaches the store
is computed by abstract interpretation of the predicates on the loop character over the set
domain of Unicode scalar values and must equal [U+0020, U+007E]; every other character reaches
Err(CharacterNotAllowed(that character)); traversal is `chars().enumerate()` in order with early
return (first offender); the stored byte is to_ascii_uppercase(c) as u8 at the character's
index; `length` = byte length; all other constructors are single calls to `new`; Eq/Ord/Hash are
derived over (array, length) in that order; Display / as_ref expose s[..length]; the struct is
constructed nowhere else and its fields are private."""
import cfg
from rules import util
from rules.util import strip, canon
from symex import show, walk

EXPLANATION = __doc__
TRUSTED = ["rustc / extractor", "documented meaning of char::is_ascii / is_ascii_control / to_ascii_uppercase (core)", "for ASCII text chars().count() == len()", "zero padding + NUL outside the alphabet: order/equality of the padded arrays = order/equality of the texts"]
NOT_DECIDED = ["Unicode tables inside core"]
FLOORS = {"length-gate": 3, "char-set": 2, "normal-form": 3, "first-offender": 1, "constructors": 5, "derives": 2, "view": 2, "who-may-construct": 2}
INNER = "normalized_string::NormalizedString::new::inner"
NS = "normalized_string::NormalizedString"
MAXLEN = 16
ACCEPT = [(0x20, 0x7E)]
ALL = [(0, 0xD7FF), (0xE000, 0x10FFFF)]

PRED = {
    "std::char::methods::<impl char>::is_ascii": [(0, 0x7F)],
    "std::char::methods::<impl char>::is_ascii_control": [(0, 0x1F), (0x7F, 0x7F)],
    "std::char::methods::<impl char>::is_ascii_graphic": [(0x21, 0x7E)],
    "std::char::methods::<impl char>::is_ascii_alphanumeric": [(0x30, 0x39), (0x41, 0x5A), (0x61, 0x7A)],
    "std::char::methods::<impl char>::is_ascii_alphabetic": [(0x41, 0x5A), (0x61, 0x7A)],
    "std::char::methods::<impl char>::is_ascii_digit": [(0x30, 0x39)],
    "std::char::methods::<impl char>::is_ascii_punctuation": [(0x21, 0x2F), (0x3A, 0x40), (0x5B, 0x60), (0x7B, 0x7E)],
    "std::char::methods::<impl char>::is_ascii_uppercase": [(0x41, 0x5A)],
    "std::char::methods::<impl char>::is_ascii_lowercase": [(0x61, 0x7A)],
    "std::char::methods::<impl char>::is_ascii_whitespace": [(0x09, 0x0A), (0x0C, 0x0D), (0x20, 0x20)],
    "std::char::methods::<impl char>::is_control": [(0, 0x1F), (0x7F, 0x9F)],
}


PRED_U8 = {
    "core::num::<impl u8>::is_ascii": [(0, 0x7F)],
    "core::num::<impl u8>::is_ascii_control": [(0, 0x1F), (0x7F, 0x7F)],
    "core::num::<impl u8>::is_ascii_graphic": [(0x21, 0x7E)],
    "core::num::<impl u8>::is_ascii_alphanumeric": [(0x30, 0x39), (0x41, 0x5A), (0x61, 0x7A)],
    "core::num::<impl u8>::is_ascii_alphabetic": [(0x41, 0x5A), (0x61, 0x7A)],
    "core::num::<impl u8>::is_ascii_digit": [(0x30, 0x39)],
    "core::num::<impl u8>::is_ascii_lowercase": [(0x61, 0x7A)],
    "core::num::<impl u8>::is_ascii_uppercase": [(0x41, 0x5A)],
    "core::num::<impl u8>::is_ascii_punctuation": [(0x21, 0x2F), (0x3A, 0x40), (0x5B, 0x60), (0x7B, 0x7E)],
    "core::num::<impl u8>::is_ascii_whitespace": [(0x09, 0x0A), (0x0C, 0x0D), (0x20, 0x20)],
}


def cmp_set(d, c_term):
    """the set of characters c for which the comparison d (a binop between c - possibly widened to
    an integer - and a constant) holds, or None when d is not such a comparison"""
    if d[0] != "binop" or d[1] not in ("Lt", "Le", "Gt", "Ge", "Eq", "Ne"):
        return None

    def side(t):
        t = strip(t)
        while t[0] == "cast" and t[1] in ("IntToInt", "CharToInt") or (t[0] == "cast" and len(t) > 3 and t[3] in ("u32", "u8", "u64", "usize")):
            if t[0] != "cast":
                break
            wide = t[3] in ("u32", "u64", "usize", "u128", "i64", "i128")
            if strip(t[2]) == strip(c_term) and not wide:
                return None         # a narrowing cast of the character is not the character
            t = strip(t[2])
        if t == strip(c_term):
            return "c"
        if t[0] == "int":
            return int(t[1])
        return None

    a, b = side(d[2]), side(d[3])
    op = d[1]
    if a == "c" and isinstance(b, int):
        k = b
    elif b == "c" and isinstance(a, int):
        k = a
        op = {"Lt": "Gt", "Le": "Ge", "Gt": "Lt", "Ge": "Le", "Eq": "Eq", "Ne": "Ne"}[op]
    else:
        return None
    top = 0x10FFFF
    return {"Lt": [(0, k - 1)] if k > 0 else [], "Le": [(0, k)], "Gt": [(k + 1, top)] if k < top else [], "Ge": [(k, top)], "Eq": [(k, k)], "Ne": ([(0, k - 1)] if k > 0 else []) + ([(k + 1, top)] if k < top else [])}[op]


def range_contains_set(d, c_terms):
    """`(lo..=hi).contains(&c)` / `(lo..hi).contains(&c)` with constant bounds: the characters in the range"""
    if not (util.is_call(d) and d[1].endswith("::contains") and ("std::ops::RangeInclusive" in d[1] or "std::ops::Range::" in d[1] or "RangeBounds" in d[1]) and len(d[2]) == 2):
        return None
    if strip(d[2][1]) not in [strip(c) for c in c_terms]:
        return None
    r = strip(d[2][0])
    incl = None
    if util.is_call(r, "std::ops::RangeInclusive::<Idx>::new") and len(r[2]) == 2:
        lo, hi, incl = strip(r[2][0]), strip(r[2][1]), True
    elif r[0] == "agg" and r[2] == "std::ops::RangeInclusive":
        lo, hi, incl = strip(r[4][0]), strip(r[4][1]), True
    elif r[0] == "agg" and r[2] == "std::ops::Range":
        lo, hi, incl = strip(r[4][0]), strip(r[4][1]), False
    if incl is None or lo[0] != "int" or hi[0] != "int":
        return None
    lo, hi = int(lo[1]), int(hi[1]) - (0 if incl else 1)
    return [(lo, hi)] if lo <= hi else []


def inter(a, b):
    out = []
    for x0, x1 in a:
        for y0, y1 in b:
            lo, hi = max(x0, y0), min(x1, y1)
            if lo <= hi:
                out.append((lo, hi))
    return norm_set(out)


def minus(a, b):
    out = list(a)
    for y0, y1 in b:
        nxt = []
        for x0, x1 in out:
            if y1 < x0 or y0 > x1:
                nxt.append((x0, x1))
                continue
            if x0 < y0:
                nxt.append((x0, y0 - 1))
            if y1 < x1:
                nxt.append((y1 + 1, x1))
        out = nxt
    return norm_set(out)


def norm_set(s):
    s = sorted(s)
    out = []
    for lo, hi in s:
        if out and lo <= out[-1][1] + 1:
            out[-1] = (out[-1][0], max(out[-1][1], hi))
        else:
            out.append((lo, hi))
    return out


def show_set(s):
    return "{%s}" % ", ".join("U+%04X..U+%04X" % (a, b) if a != b else "U+%04X" % a for a, b in s)


def pred_true_set(ctx, fn, cs, depth=0, c_param=1):
    """set of characters (subset of cs) for which the crate-local predicate fn(c: char) -> bool
    (or a capture-free closure |c: &char| with c_param = 2) returns true, by abstract
    interpretation of its body; None if undecided"""
    if depth > 3:
        return None
    se = ctx.flat.run(fn)
    if se is None or se.body.arg_count != c_param:
        return None
    body = se.body
    c_term = ("param", c_param)
    true_set = []
    failed = []

    def value_split(v, cur):
        """(true subset, false subset) of cur for a boolean value term v"""
        v = strip(v)
        neg = False
        while v[0] == "unop" and v[1] == "Not":
            neg = not neg
            v = v[2]
        cm = cmp_set(v, c_term)
        if v[0] == "int":
            t, f = (cur, []) if v[1] else ([], cur)
        elif v[0] == "agg" and v[1] == "adt" and v[2] == "std::result::Result" and v[3] in (0, 1):
            # a verdict closure |c| -> Result<(), E>: "true" = it refuses (Err)
            t, f = (cur, []) if v[3] == 1 else ([], cur)
        elif cm is not None:
            t, f = inter(cur, cm), minus(cur, cm)
        elif util.is_call(v) and v[1] in PRED and strip(v[2][0]) == c_term:
            t, f = inter(cur, PRED[v[1]]), minus(cur, PRED[v[1]])
        elif util.is_call(v) and v[1] in ctx.fb.bodies and strip(v[2][0]) == c_term:
            t = pred_true_set(ctx, v[1], cur, depth + 1)
            if t is None:
                return None
            f = minus(cur, t)
        else:
            return None
        return (f, t) if neg else (t, f)

    def explore(bb, cur, seen, ret_override=None):
        if not cur or bb in seen:
            return
        info = se.term_info.get(bb, {})
        k = info.get("k")
        if k == "switch":
            sp = value_split(info["discr"], cur)
            tg = info["targets"]
            if sp is None or len(tg) != 1 or tg[0][0] != 0:
                failed.append(bb)
                return
            explore(tg[0][1], sp[1], seen | {bb})
            explore(info["otherwise"], sp[0], seen | {bb})
            return
        if k == "return":
            # value of _0 along this path: evaluate through the phi of the return block
            v = se.ret_by_block.get(bb)
            failed.append(("ret", bb)) if v is None else None
            return
        for s_ in body.succs(bb):
            explore(s_, cur, seen | {bb})

    # path-sensitive evaluation of the returned value: walk paths and evaluate _0 at the return
    rets = list(se.ret_by_block.items())
    if len(rets) != 1:
        return None
    rbb, rv = rets[0]
    if rv[0] != "phi":
        sp = value_split(rv, cs)
        return None if sp is None else norm_set(sp[0])
    ins = se.phi_inputs.get((rv[2], rv[3]), {})
    # each predecessor of the join carries one value; the characters reaching it are found by exploring
    reach = {}

    def explore2(bb, cur, seen):
        if not cur or bb in seen:
            return
        if bb in ins and rv[2] in body.succs(bb):
            reach.setdefault(bb, []).extend(cur)
            return
        info = se.term_info.get(bb, {})
        if info.get("k") == "switch":
            sp = value_split(info["discr"], cur)
            tg = info["targets"]
            if sp is None or len(tg) != 1 or tg[0][0] != 0:
                failed.append(bb)
                return
            explore2(tg[0][1], sp[1], seen | {bb})
            explore2(info["otherwise"], sp[0], seen | {bb})
            return
        for s_ in body.succs(bb):
            explore2(s_, cur, seen | {bb})

    explore2(0, cs, frozenset())
    if failed:
        return None
    out = []
    for pred, cur in reach.items():
        sp = value_split(ins[pred], norm_set(cur))
        if sp is None:
            return None
        out.extend(sp[0])
    return norm_set(out)


def _unit_ok(fb, body, st):
    """`Ok(())` of a looked-through step such as `check_length(s)?` is not a verdict on the string"""
    try:
        pl0 = st.get("place")
        if pl0 is not None and not pl0["p"]:
            # `Ok(v)` of an intermediate step whose payload is not the string type (the checked
            # length that `.ok_or(..)?` hands on, say): a Result<u8, _> cannot be the verdict
            t0 = body.local_ty(pl0["l"])
            if t0 is not None and t0.k == "adt" and t0.path == "std::result::Result" and t0.targs() and t0.targs()[0].s in ("u8", "usize", "u16", "u32", "u64", "()"):
                return True
        ops = st["rv"].get("ops", [])
        if len(ops) != 1:
            return False
        o = ops[0]
        if o.get("k") == "const":
            return (o.get("val") or {}).get("ck") == "zst"
        pl = o.get("place")
        if pl is not None and not pl["p"]:
            t = body.local_ty(pl["l"])
            return t is not None and t.k == "tuple" and t.s == "()"
    except Exception:
        pass
    return False


def validating_function(ctx):
    """the unique non-derived function that constructs NormalizedString (role, not name)"""
    # (a helper that a refactoring extracted and that was spliced back into every caller - say a
    # `finish(self) -> NormalizedString` of a private builder - is seen in its callers)
    absorbed = ctx.fb.absorbed()
    sites = util.aggregates(ctx.fb, NS)
    fc = util.faithful_clones(ctx)     # a proved field-for-field copy constructs no new text
    fns = sorted({b.path for b, _, _, _ in sites if b.path not in absorbed and b.path not in fc})
    return fns[0] if len(fns) == 1 else None


def check(ctx, rep):
    fb = ctx.fb
    import ranges

    INNER_FN = validating_function(ctx)
    if INNER_FN is None:
        rep.violation("length-gate", NS, "anchor", "NormalizedString is not constructed by exactly one function")
        return
    se = ctx.wrap.run(INNER_FN)
    body = se.body
    loops = util.for_loops(ctx, se)
    world = ranges.World(ctx)
    pr = world.prover(INNER_FN)
    if len(loops) == 0 and check_bulk(ctx, rep, INNER_FN, se, pr):
        pass
    elif len(loops) == 0 and check_bulk_try(ctx, rep, INNER_FN, se, pr):
        pass
    elif len(loops) != 1:
        rep.violation("length-gate", INNER_FN, "shape", "expected one loop over the characters, found %d" % len(loops), body.loc())
    elif len(util.loop_exits(body, loops[0]["next_bb"]) - {(loops[0]["switch_bb"], loops[0]["exit_bb"])} - {e_ for e_ in util.loop_exits(body, loops[0]["next_bb"]) if _leads_to_err(body, e_[1])}) > 0:
        rep.violation("normal-form", INNER_FN, "stored-byte", "the character loop can be left before the last character without an error (break inside the loop): later characters are neither checked nor stored", body.loc())
    else:
        check_loop(ctx, rep, INNER_FN, se, pr, loops[0])
    # the constructors, the view and the derives are decided whatever became of the loop rules
    # (other properties re-file them)
    check_tail(ctx, rep, INNER_FN)


def _leads_to_err(body, bb):
    """every path from bb returns, and the first aggregate built on it is an Err (the refusal
    of a character): such an exit of the character loop is the early return of the verdict"""
    seen = set()
    work = [bb]
    ok = True
    while work and ok:
        x = work.pop()
        if x in seen:
            continue
        seen.add(x)
        blk = body.blocks[x]
        built = [s_ for s_ in blk["stmts"] if s_.get("k") == "assign" and s_["rv"].get("k") == "aggregate" and (s_["rv"].get("path") == "error::NormalizedStringError" or (s_["rv"].get("path") == "std::result::Result" and s_["rv"].get("variant") == 1))]
        if any(s_.get("k") == "assign" and s_["rv"].get("k") == "aggregate" and s_["rv"].get("path") == "std::result::Result" and s_["rv"].get("variant") == 0 for s_ in blk["stmts"]):
            ok = False      # an Ok is built on this path
        if built:
            continue        # this path builds the error (or the Err around it): fine
        t = blk["term"]
        if t["k"] == "return":
            ok = False
        for s_ in body.succs(x):
            if body.blocks[s_]["term"]["k"] != "unreachable":
                work.append(s_)
    return ok


def check_bulk(ctx, rep, INNER_FN, se, pr):
    """the validating function written without a character loop: length gate; the first
    offending character found by `s.chars().find(pred)` and reported; then the bytes copied in
    bulk into the front of a zeroed array and upper-cased in place (all ASCII at that point, so
    byte k is character k).  Emits the same obligations as the loop form; returns False when
    the body is not of this shape."""
    fb = ctx.fb
    body = se.body
    calls = [se.term_info[bb] for bb in sorted(se.term_info) if se.term_info[bb].get("k") == "call"]
    finds = [c for c in calls if c["name"] == "std::iter::Iterator::find"]
    if len(finds) != 1:
        return False
    fd = finds[0]
    fbb = fd["site"][1]
    it = se.call_old.get((fd["site"], 0))
    it = strip(it) if it is not None else None
    cl = fd["locargs"][1] if len(fd.get("locargs", ())) > 1 else ("?",)
    over_chars = it is not None and util.is_call(it, "core::str::<impl str>::chars") and strip(it[2][0]) == ("param", 1)
    # ---- length gate
    arr_len = None
    for f in fb.adt_fields(NS):
        t = fb.ty(f["ty"])
        if t.k == "array":
            arr_len = t.len
    anchor = it[3][1] if over_chars else fbb
    lr = pr.rng(("len", ("param", 1)), anchor)
    rep.check(arr_len == MAXLEN, "length-gate", INNER_FN, "constant", "array length = %s" % arr_len, "text array length is %s, documented 16" % arr_len)
    rep.check(lr == (1, MAXLEN), "length-gate", INNER_FN, "dominates", "on every path to the character scan the byte length is in [%s, %s]" % lr, "the character scan is reachable with a byte length in [%s, %s] (must be exactly 1..=16 bytes)" % lr, body.loc())
    pre = cfg.reachable(body, cut_blocks=[anchor])
    bad = []
    for bi in pre:
        for s_ in body.blocks[bi]["stmts"]:
            if s_["k"] == "assign" and s_["rv"]["k"] == "aggregate" and s_["rv"].get("ak") == "adt":
                pth, vn = s_["rv"]["path"], s_["rv"]["vname"]
                if pth == "std::result::Result" and vn == "Ok" and not _unit_ok(fb, body, s_):
                    bad.append("Ok")
                if pth == "error::NormalizedStringError" and vn != "StringTooLong":
                    bad.append(vn)
                if pth == NS:
                    bad.append("NormalizedString")
    has_tl = any(s_["k"] == "assign" and s_["rv"]["k"] == "aggregate" and s_["rv"].get("vname") == "StringTooLong" for bi in pre for s_ in body.blocks[bi]["stmts"])
    rep.check(has_tl and not bad, "length-gate", INNER_FN, "too-long-or-empty", "over-long and empty input => Err(StringTooLong), nothing else before the character scan", "before the character scan the function can produce %s / no StringTooLong" % bad, body.loc())
    # ---- first offender: find(pred) yields the first character for which pred holds
    sw = se.term_info.get(body.blocks[fbb]["term"]["target"], {})
    some_t = none_t = None
    if sw.get("k") == "switch" and strip(sw["discr"]) == ("discr", strip(fd["term"])):
        tg = dict(sw["targets"])
        some_t = tg.get(1)
        none_t = tg.get(0, sw["otherwise"] if 1 in tg else None)
    rep.check(over_chars and some_t is not None and none_t is not None, "first-offender", INNER_FN, "chars-in-order", "s.chars().find(not allowed): characters are tested in order, the first offender ends the scan", "the characters are not scanned by s.chars().find(..) with both outcomes handled", body.loc(fbb))
    if not (over_chars and some_t is not None and none_t is not None):
        return True
    errs = {bi: se.assigns[(bi, si)][1] for bi, si, s_ in util.blocks_constructing(body, "error::NormalizedStringError", "CharacterNotAllowed")}
    payload = ("field", ("downcast", strip(fd["term"]), 1), 0)
    good = bool(errs) and all(strip(v[4][0]) == payload and cfg.must_pass_edge(body, (body.blocks[fbb]["term"]["target"], some_t), bi) for bi, v in errs.items())
    rep.check(good, "first-offender", INNER_FN, "reported-char", "Err(CharacterNotAllowed(c)) carries the character find() returned", "the reported character is not the offending character found by the scan", body.loc())
    # the Some arm leads only to that error; the array is built on the None arm only
    some_reach = cfg.reachable(body, start=some_t)
    ns_blocks = [bi for bi, _, _ in util.blocks_constructing(body, NS)]
    rep.check(not any(bi in some_reach for bi in ns_blocks) and all(cfg.must_pass_edge(body, (body.blocks[fbb]["term"]["target"], none_t), bi) for bi in ns_blocks), "char-set", INNER_FN, "total", "an offender leads to the error, no offender to the stored text", "a string with an offending character can still be stored", body.loc())
    rej = pred_true_set(ctx, cl[2], ALL, c_param=2) if cl[0] == "agg" and cl[1] == "closure" and not cl[4] else None
    if rej is None:
        rep.undecided("char-set", INNER_FN, "accepted-set", "cannot decide the character set of the scan predicate", body.loc())
        accept = None
    else:
        accept = norm_set(minus(ALL, rej))
        rep.check(accept == ACCEPT, "char-set", INNER_FN, "accepted-set", "accepted characters = %s" % show_set(accept), "accepted character set is %s; wrongly accepted %s, wrongly refused %s" % (show_set(accept), show_set(minus(accept, ACCEPT)), show_set(minus(ACCEPT, accept))), body.loc())
    # ---- normal form: A = [0; 16]; V = first len bytes of A; V.copy_from_slice(s.as_bytes()); V.make_ascii_uppercase()
    arrs = [(loc, v) for (bi, si), (loc, v) in se.assigns.items() if loc[0] == "local" and v[0] == "repeat" and v[1][:2] == ("int", 0) and v[2] == MAXLEN]
    rep.check(len(arrs) == 1, "normal-form", INNER_FN, "zero-padded", "the array starts as [0; 16] (zero padding) and only its first len bytes are written", "the text array is not zero-initialised")
    good = False
    desc = "?"
    if len(arrs) == 1:
        A = arrs[0][0]
        views = [c for c in calls if (c["name"].endswith("<impl [T]>::split_at_mut") or c["name"].endswith("::index_mut")) and c["locargs"][0] == ("ref", A, True)]
        others_on_A = [c for c in calls if c not in views and any(a == ("ref", A, True) for a in c.get("locargs", ()))]

        def view_term(c):
            if c["name"].endswith("split_at_mut") and util.numnorm(c["args"][1]) == ("len", ("param", 1)):
                return ("field", strip(c["term"]), 0)
            if c["name"].endswith("::index_mut"):
                r = strip(c["args"][1])
                if r[0] == "agg" and r[2] == "std::ops::RangeTo" and util.numnorm(r[4][0]) == ("len", ("param", 1)):
                    return strip(c["term"])
                if r[0] == "agg" and r[2] == "std::ops::Range" and util.numnorm(r[4][0])[:2] == ("int", 0) and util.numnorm(r[4][1]) == ("len", ("param", 1)):
                    return strip(c["term"])
            return None

        # upper-casing may run over the prefix view or over the whole array: the zero padding is
        # unchanged by make_ascii_uppercase
        up_on_A = [c for c in others_on_A if c["name"].endswith("make_ascii_uppercase")]
        others_on_A = [c for c in others_on_A if c not in up_on_A]
        if len(views) == 1 and not others_on_A and len(up_on_A) <= 1 and view_term(views[0]) is not None:
            V = view_term(views[0])
            onV = [c for c in calls if c.get("locargs") and c["locargs"][0][0] == "ref" and c["locargs"][0][2] and strip(c["locargs"][0][1]) == V] + up_on_A
            onV.sort(key=lambda c: c["site"][1])
            names = [c["name"].split("::")[-1] for c in onV]
            desc = "prefix view written by %s" % names
            if names == ["copy_from_slice", "make_ascii_uppercase"]:
                src = strip(onV[0]["args"][1])
                src_ok = util.is_call(src, "core::str::<impl str>::as_bytes") and strip(src[2][0]) == ("param", 1)
                ordered = onV[0]["site"][1] < onV[1]["site"][1] and cfg.must_pass_block(body, onV[0]["site"][1], onV[1]["site"][1])
                # no other store through the view
                stray = [1 for (bi, si), (loc, v) in se.assigns.items() if any(x == V for x in walk(strip(loc))) ]
                good = src_ok and ordered and not stray and accept == ACCEPT
                desc = "array[..len] = s.as_bytes() upper-cased in place (every accepted character is one ASCII byte)"
    rep.check(good, "normal-form", INNER_FN, "stored-byte", desc, "stored bytes are not the ASCII upper case of the characters at their positions: " + desc, body.loc())
    oks = [(bi, si) for bi, si, s_ in util.blocks_constructing(body, NS)]
    good = False
    if len(oks) == 1 and len(arrs) == 1:
        loc, v = se.assigns[oks[0]]
        tys = [fb.ty(f["ty"]).k for f in fb.adt_fields(NS)]
        arr_v = [x for x, t in zip(v[4], tys) if t == "array"]
        len_v = [x for x, t in zip(v[4], tys) if t == "int"]
        ln = util.numnorm(len_v[0]) if len_v else None
        len_ok = ln is not None and ln[0] == "cast" and ln[3] == "u8" and ln[2] == ("len", ("param", 1))
        cur = se.read(se.in_state.get(oks[0][0], {}), arrs[0][0])
        good = len_ok and bool(arr_v) and strip(arr_v[0]) == strip(cur)
    rep.check(good, "normal-form", INNER_FN, "length-field", "length = byte length (<= 16, fits u8), s = the filled array", "the length stored is not the byte length of the input / the array stored is not the filled one", body.loc())
    return True


def check_bulk_try(ctx, rep, INNER_FN, se, pr):
    """a third spelling without a character loop: `s.chars().try_for_each(|c| if refused(c)
    { Err(CharacterNotAllowed(c)) } else { Ok(()) })?` (try_for_each stops at the first Err: the
    first offender, carried out unchanged by `?`), then `core::array::from_fn(|i|
    s.as_bytes().get(i).map_or(0, u8::to_ascii_uppercase))`: byte i upper-cased below the
    length, zero above it (all ASCII at that point, so byte k is character k)."""
    fb = ctx.fb
    body = se.body
    calls = [se.term_info[bb] for bb in sorted(se.term_info) if se.term_info[bb].get("k") == "call"]
    tfs = [c for c in calls if c["name"] == "std::iter::Iterator::try_for_each"]
    ffs = [c for c in calls if c["name"] in ("std::array::from_fn", "core::array::from_fn")]
    if len(tfs) != 1 or len(ffs) != 1:
        return False
    tf, ff = tfs[0], ffs[0]
    it = se.call_old.get((tf["site"], 0))
    it = strip(it) if it is not None else None
    over_chars = it is not None and util.is_call(it, "core::str::<impl str>::chars") and strip(it[2][0]) == ("param", 1)
    cl = tf["locargs"][1] if len(tf.get("locargs", ())) > 1 else ("?",)
    arr_len = None
    for f in fb.adt_fields(NS):
        t = fb.ty(f["ty"])
        if t.k == "array":
            arr_len = t.len
    anchor = it[3][1] if over_chars else tf["site"][1]
    lr = pr.rng(("len", ("param", 1)), anchor)
    rep.check(arr_len == MAXLEN, "length-gate", INNER_FN, "constant", "array length = %s" % arr_len, "text array length is %s, documented 16" % arr_len)
    rep.check(lr == (1, MAXLEN), "length-gate", INNER_FN, "dominates", "on every path to the character scan the byte length is in [%s, %s]" % lr, "the character scan is reachable with a byte length in [%s, %s] (must be exactly 1..=16 bytes)" % lr, body.loc())
    pre = cfg.reachable(body, cut_blocks=[anchor])
    bad = []
    for bi in pre:
        for s_ in body.blocks[bi]["stmts"]:
            if s_["k"] == "assign" and s_["rv"]["k"] == "aggregate" and s_["rv"].get("ak") == "adt":
                pth, vn = s_["rv"]["path"], s_["rv"]["vname"]
                if pth == "std::result::Result" and vn == "Ok" and not _unit_ok(fb, body, s_):
                    bad.append("Ok")
                if pth == "error::NormalizedStringError" and vn != "StringTooLong":
                    bad.append(vn)
                if pth == NS:
                    bad.append("NormalizedString")
    has_tl = any(s_["k"] == "assign" and s_["rv"]["k"] == "aggregate" and s_["rv"].get("vname") == "StringTooLong" for bi in pre for s_ in body.blocks[bi]["stmts"])
    rep.check(has_tl and not bad, "length-gate", INNER_FN, "too-long-or-empty", "over-long and empty input => Err(StringTooLong), nothing else before the character scan", "before the character scan the function can produce %s / no StringTooLong" % bad, body.loc())
    # ---- the verdict of the scan is tested by `?` and its error handed on unchanged
    T = strip(tf["term"])
    br = [c for c in calls if c["name"].endswith("Result<T, E> as std::ops::Try>::branch") and strip(c["args"][0]) == T]
    fr = [c for c in calls if "FromResidual" in c["name"]]
    ns_blocks = [bi for bi, _, _ in util.blocks_constructing(body, NS)]
    plumbing = False
    if len(br) == 1 and len(fr) == 1:
        bt = strip(br[0]["term"])
        sw = [(bb, i) for bb, i in se.term_info.items() if i.get("k") == "switch" and strip(i["discr"]) == ("discr", bt)]
        if len(sw) == 1:
            tg = dict(sw[0][1]["targets"])
            cont_t, brk_t = tg.get(0), tg.get(1, sw[0][1]["otherwise"])
            a = strip(fr[0]["args"][0])
            same = a[0] == "field" and a[1][0] == "downcast" and a[1][2] == 1 and strip(a[1][1]) == bt
            plumbing = cont_t is not None and same and cfg.must_pass_edge(body, (sw[0][0], brk_t), fr[0]["site"][1]) and all(cfg.must_pass_edge(body, (sw[0][0], cont_t), bi) for bi in ns_blocks)
    rep.check(over_chars and plumbing, "first-offender", INNER_FN, "chars-in-order", "s.chars().try_for_each(verdict)?: characters are judged in order, the first Err ends the scan and is returned as it is", "the characters are not scanned by s.chars().try_for_each(..)? with its error handed on unchanged", body.loc(tf["site"][1]))
    if not (over_chars and plumbing) or not (cl[0] == "agg" and cl[1] == "closure" and not cl[4]):
        rep.undecided("char-set", INNER_FN, "accepted-set", "cannot decide the character set of the scan verdict", body.loc())
        return True
    cse = ctx.flat.run(cl[2])
    errs = {bi: cse.assigns[(bi, si)][1] for bi, si, s_ in util.blocks_constructing(cse.body, "error::NormalizedStringError", "CharacterNotAllowed")} if cse is not None else {}
    other_err = [1 for bi, si, s_ in util.blocks_constructing(cse.body, "error::NormalizedStringError") if s_["rv"]["vname"] != "CharacterNotAllowed"] if cse is not None else [1]
    good = bool(errs) and not other_err and all(strip(v[4][0]) == ("param", 2) for v in errs.values())
    rep.check(good, "first-offender", INNER_FN, "reported-char", "Err(CharacterNotAllowed(c)) carries the character the verdict closure was given", "the reported character is not the offending character", body.loc())
    rep.check(bool(ns_blocks), "char-set", INNER_FN, "total", "an offender leads to the error (`?`), no offender to the stored text", "no stored text is built", body.loc())
    rej = pred_true_set(ctx, cl[2], ALL, c_param=2)
    if rej is None:
        rep.undecided("char-set", INNER_FN, "accepted-set", "cannot decide the character set of the scan verdict", body.loc())
        accept = None
    else:
        accept = norm_set(minus(ALL, rej))
        rep.check(accept == ACCEPT, "char-set", INNER_FN, "accepted-set", "accepted characters = %s" % show_set(accept), "accepted character set is %s; wrongly accepted %s, wrongly refused %s" % (show_set(accept), show_set(minus(accept, ACCEPT)), show_set(minus(ACCEPT, accept))), body.loc())
    # ---- normal form: array[i] = upper(bytes[i]) for i < len, 0 otherwise
    fcl = ff["locargs"][0] if ff.get("locargs") else ("?",)
    good = False
    desc = "?"
    zero_pad = False
    if fcl[0] == "agg" and fcl[1] == "closure" and len(fcl[4]) == 1:
        cap = strip(util.resolve_locals(se, ff["site"][1], fcl[4][0]))
        while cap[0] in ("ref", "refv"):
            cap = strip(cap[1])
        bytes_ok = util.is_call(cap, "core::str::<impl str>::as_bytes") and strip(cap[2][0]) == ("param", 1)
        fse = ctx.flat.run(fcl[2])
        if fse is not None and bytes_ok:
            r = strip(fse.ret)
            desc = show(r, maxdepth=4)
            # Option::map_or(bytes.get(i), 0, u8::to_ascii_uppercase)
            if util.is_call(r, "std::option::Option::<T>::map_or") and len(r[2]) == 3:
                g, dflt, f_ = strip(r[2][0]), strip(r[2][1]), strip(r[2][2])
                get_ok = util.is_call(g) and g[1].endswith("<impl [T]>::get") and len(g[2]) == 2 and strip(g[2][1]) == ("param", 2)
                base = strip(g[2][0]) if get_ok else ("?",)
                while base[0] in ("deref", "ref", "refv"):
                    base = strip(base[1])
                get_ok = get_ok and base == ("field", ("param", 1), 0)
                up_ok = f_ == ("fn", "core::num::<impl u8>::to_ascii_uppercase")
                if f_[0] == "agg" and f_[1] == "closure" and not f_[4]:
                    uv = util.closure_value(ctx, f_, (("U",),))
                    up_ok = uv is not None and util.is_call(strip(uv), "core::num::<impl u8>::to_ascii_uppercase") and strip(strip(uv)[2][0]) in (("U",), ("deref", ("U",)))
                zero_pad = dflt[:2] == ("int", 0)
                good = get_ok and up_ok and zero_pad and accept == ACCEPT
                desc = "array = from_fn(|i| s.as_bytes().get(i).map_or(0, to_ascii_uppercase)): byte i upper-cased below the length (every accepted character is one ASCII byte)"
    rep.check(zero_pad, "normal-form", INNER_FN, "zero-padded", "positions at and above the length are 0 (map_or default)", "the text array is not zero-padded")
    rep.check(good, "normal-form", INNER_FN, "stored-byte", desc, "stored bytes are not the ASCII upper case of the characters at their positions: " + desc, body.loc())
    oks = [(bi, si) for bi, si, s_ in util.blocks_constructing(body, NS)]
    good = False
    if len(oks) == 1:
        loc, v = se.assigns[oks[0]]
        tys = [fb.ty(f["ty"]).k for f in fb.adt_fields(NS)]
        arr_v = [x for x, t in zip(v[4], tys) if t == "array"]
        len_v = [x for x, t in zip(v[4], tys) if t == "int"]
        ln = util.numnorm(len_v[0]) if len_v else None
        len_ok = ln is not None and ln[0] == "cast" and ln[3] == "u8" and ln[2] == ("len", ("param", 1))
        good = len_ok and bool(arr_v) and strip(arr_v[0]) == strip(ff["term"])
    rep.check(good, "normal-form", INNER_FN, "length-field", "length = byte length (<= 16, fits u8), s = the array built by from_fn", "the length stored is not the byte length of the input / the array stored is not the one built", body.loc())
    return True


def check_loop(ctx, rep, INNER_FN, se, pr, lp):
    fb = ctx.fb
    body = se.body
    # ------------------------------------------------------------ length gate (by dominating facts)
    arr_len = None
    for f in fb.adt_fields(NS):
        t = fb.ty(f["ty"])
        if t.k == "array":
            arr_len = t.len
    lr = pr.rng(("len", ("param", 1)), lp["next_bb"])
    rep.check(arr_len == MAXLEN, "length-gate", INNER_FN, "constant", "array length = %s" % arr_len, "text array length is %s, documented 16" % arr_len)
    rep.check(lr == (1, MAXLEN), "length-gate", INNER_FN, "dominates", "on every path into the character loop the byte length is in [%s, %s]" % lr, "the character loop is reachable with a byte length in [%s, %s] (must be exactly 1..=16 bytes)" % lr, body.loc())
    # outcomes reachable without entering the loop: only Err(StringTooLong)
    pre = cfg.reachable(body, cut_blocks=[lp["next_bb"]])
    bad = []
    for bi in pre:
        for s in body.blocks[bi]["stmts"]:
            if s["k"] == "assign" and s["rv"]["k"] == "aggregate" and s["rv"].get("ak") == "adt":
                pth, vn = s["rv"]["path"], s["rv"]["vname"]
                if pth == "std::result::Result" and vn == "Ok" and not _unit_ok(fb, body, s):
                    bad.append("Ok")
                if pth == "error::NormalizedStringError" and vn != "StringTooLong":
                    bad.append(vn)
                if pth == NS:
                    bad.append("NormalizedString")
    has_tl = any(s["k"] == "assign" and s["rv"]["k"] == "aggregate" and s["rv"].get("vname") == "StringTooLong" for bi in pre for s in body.blocks[bi]["stmts"])
    rep.check(has_tl and not bad, "length-gate", INNER_FN, "too-long-or-empty", "over-long and empty input => Err(StringTooLong), nothing else before the character loop", "before the character loop the function can produce %s / no StringTooLong" % bad, body.loc())
    # ------------------------------------------------------------ traversal
    init = lp["init_call"]
    item = strip(lp["elem"])
    mode = None
    if init is not None:
        x = strip(init[2][0])
        if util.is_call(x, "std::iter::Iterator::enumerate") and util.is_call(x[2][0], "core::str::<impl str>::chars") and strip(x[2][0][2][0]) == ("param", 1):
            mode = "enumerate"
            c_term = ("field", item, 1)
            i_term = ("field", item, 0)
        elif util.is_call(x, "core::str::<impl str>::char_indices") and strip(x[2][0]) == ("param", 1):
            # for (at, c) in s.char_indices(): `at` is the byte offset of c.  Every character stored
            # so far was accepted - one ASCII byte each (accepted set below) - and the first refused
            # one ends the function, so at the store the offset is the character's position
            mode = "char_indices"
            c_term = ("field", item, 1)
            i_term = ("field", item, 0)
        elif util.is_call(x, "std::iter::Iterator::enumerate") and util.is_call(strip(x[2][0]), "std::iter::Iterator::zip") and util.is_call(strip(strip(x[2][0])[2][0]), "core::str::<impl str>::bytes") and strip(strip(strip(x[2][0])[2][0])[2][0]) == ("param", 1) and util.is_call(strip(strip(x[2][0])[2][1]), "core::slice::<impl [T]>::iter_mut"):
            # for (i, (b, out)) in s.bytes().zip(array.iter_mut()).enumerate(): byte i of the text
            # goes to slot i.  While every byte so far was accepted (printable ASCII), byte i is
            # character i; the first refused byte starts the first refused character, and
            # `s[i..].chars().next()` is that character
            mode = "bytes"
            c_term = ("field", ("field", item, 1), 0)
            slot_term = ("field", ("field", item, 1), 1)
            i_term = ("field", item, 0)
        elif util.is_call(x, "std::iter::Iterator::zip"):
            a, b = strip(x[2][0]), strip(x[2][1])
            if util.is_call(a, "core::slice::<impl [T]>::iter_mut") and util.is_call(b, "core::str::<impl str>::chars") and strip(b[2][0]) == ("param", 1):
                mode = "zip"
                c_term = ("field", item, 1)
                slot_term = ("field", item, 0)
        elif util.is_call(x, "core::str::<impl str>::chars") and strip(x[2][0]) == ("param", 1):
            # `for c in s.chars()` with the position kept in a counter of its own (a local, or a
            # field of a private builder): it starts at 0 and goes up by one on the way round the
            # loop, so at iteration k it is k - position k of the text goes to position k
            from rules import algos
            head = lp["next_bb"]
            for key, (init_v, step_v) in algos.loop_state(se, head).items():
                ph = algos.phi_of(se, head, key)
                iv, sv = strip(init_v), strip(step_v)
                cands = []
                if iv[:2] == ("int", 0) and key[0] == "local":
                    cands.append((ph, sv))
                if iv[0] == "agg" and iv[1] == "adt":
                    # struct state: fields updated by an `upd` chain
                    fld_upd = {}
                    t_ = sv
                    while t_[0] == "upd" and t_[2][0] == "f":
                        fld_upd.setdefault(t_[2][1], t_[3])
                        t_ = t_[1]
                    if t_ == ph:
                        for g, o in enumerate(iv[4]):
                            if strip(o)[:2] == ("int", 0) and g in fld_upd:
                                cands.append((("field", ph, g), strip(fld_upd[g])))
                for ct, st_ in cands:
                    n_ = util.numnorm(st_)
                    if n_[0] == "field" and n_[2] == 0 and n_[1][0] == "binop" and n_[1][1] == "AddWithOverflow":
                        n_ = ("binop", "Add", n_[1][2], n_[1][3])
                    if n_ == ("binop", "Add", util.numnorm(ct), ("int", 1, n_[3][2] if n_[0] == "binop" and len(n_[3]) > 2 else "u8")) or (n_[0] == "binop" and n_[1] == "Add" and n_[2] == util.numnorm(ct) and n_[3][:2] == ("int", 1)):
                        mode = "counter"
                        c_term = item
                        i_term = ct
    rep.check(mode is not None, "first-offender", INNER_FN, "chars-in-order", ("characters are visited by s.chars() in order, position k of the text goes to position k of the array (%s), early return on the first offender" % mode) if mode != "bytes" else "the bytes of the text are visited in order, byte k goes to slot k; the first refused byte is at a character boundary and s[i..] starts with the first refused character", "characters are not traversed by s.chars().enumerate() / array.iter_mut().zip(s.chars()) in order", body.loc(lp["next_bb"]))
    if mode is None:
        return False
    # ------------------------------------------------------------ char set by abstract interpretation
    store_blocks = {}
    for (bi, si), (loc, v) in se.assigns.items():
        if mode in ("enumerate", "char_indices") and loc[0] == "index" and loc[1][0] == "local":
            store_blocks[bi] = (loc, v)
        if mode == "counter" and loc[0] == "index" and (loc[1][0] == "local" or (loc[1][0] == "field" and loc[1][1][0] == "local")):
            store_blocks[bi] = (loc, v)
        if mode in ("zip", "bytes") and loc[0] == "deref" and strip(loc[1]) == slot_term:
            store_blocks[bi] = (loc, v)
    err_blocks = {bi: se.assigns[(bi, si)][1] for bi, si, s in util.blocks_constructing(body, "error::NormalizedStringError", "CharacterNotAllowed")}
    accept, reject, undec = [], [], []
    TRY_U8 = "std::char::convert::<impl std::convert::TryFrom<char> for u8>::try_from"
    aliases = [c_term]          # terms that carry the character's scalar value on the paths where they exist
    for i_ in se.term_info.values():
        if i_.get("k") == "call" and i_["name"] == TRY_U8 and len(i_["args"]) == 1 and strip(i_["args"][0]) == strip(c_term):
            # Ok(b) of u8::try_from(c): b == c as a number (c <= 0xFF on that arm)
            aliases.append(("field", ("downcast", strip(i_["term"]), 0), 0))

    def cmp_any(d):
        for a_ in aliases:
            r_ = cmp_set(d, a_)
            if r_ is not None:
                return r_
        return None

    def explore(bb, cs, seen):
        if not cs:
            return
        if bb in seen:
            return
        if bb in store_blocks:
            accept.extend(cs)
            return
        if bb in err_blocks:
            reject.extend(cs)
            return
        if bb == lp["next_bb"]:
            undec.append(("reaches the next iteration without storing", cs))
            return
        info = se.term_info.get(bb, {})
        k = info.get("k")
        if k == "switch":
            d = strip(info["discr"])
            neg = False
            full = tuple(seen) + (bb,)
            for _ in range(8):
                while d[0] == "unop" and d[1] == "Not":
                    neg = not neg
                    d = strip(d[2])
                # a verdict merged from several arms (`a && b`, an inlined predicate): on this
                # path it is the value of the arm the path came through
                if d[0] == "phi" and len(d) == 5 and d[4] == () and (d[2], d[3]) in se.phi_inputs and d[2] in full:
                    ix = max(i for i, b_ in enumerate(full) if b_ == d[2])
                    ins = se.phi_inputs[(d[2], d[3])]
                    if ix > 0 and full[ix - 1] in ins:
                        d = strip(ins[full[ix - 1]])
                        continue
                break
            ts = fs = None
            cm = cmp_any(d)
            if cm is None:
                cm = range_contains_set(d, aliases)
            if d[0] == "discr" and util.is_call(strip(d[1]), TRY_U8) and strip(strip(d[1])[2][0]) == strip(c_term):
                # Result<u8, _> of u8::try_from(c): Ok (discriminant 0) exactly for c <= 0xFF
                ok_set, err_set = inter(cs, [(0, 0xFF)]), minus(cs, [(0, 0xFF)])
                tgd = dict(info["targets"])
                used = set()
                for val, st_ in ((0, ok_set), (1, err_set)):
                    tgt_ = tgd.get(val, info["otherwise"])
                    explore(tgt_, st_, seen + (bb,))
                return
            if d[0] == "int" and d[2] == "bool":
                ts, fs = (cs, []) if d[1] else ([], cs)
            elif cm is not None:
                # `matches!(c, ' '..='~')` and friends: plain comparisons of the character with constants
                ts, fs = inter(cs, cm), minus(cs, cm)
            elif util.is_call(d) and d[1] in PRED and d[2][0] == c_term:
                ts = inter(cs, PRED[d[1]])
                fs = minus(cs, PRED[d[1]])
            elif mode == "bytes" and util.is_call(d) and d[1] in PRED_U8 and strip(d[2][0]) == strip(c_term):
                ts = inter(cs, PRED_U8[d[1]])
                fs = minus(cs, PRED_U8[d[1]])
            elif util.is_call(d) and d[1] in fb.bodies and len(d[2]) == 1 and strip(d[2][0]) == c_term:
                ts = pred_true_set(ctx, d[1], cs)
                fs = minus(cs, ts) if ts is not None else None
            if ts is not None:
                if neg:
                    ts, fs = fs, ts
                tg = info["targets"]
                if len(tg) == 1 and tg[0][0] == 0:
                    explore(tg[0][1], fs, seen + (bb,))
                    explore(info["otherwise"], ts, seen + (bb,))
                    return
            undec.append(("unrecognised test %s" % show(d, maxdepth=3), cs))
            return
        if k == "return":
            undec.append(("returns without verdict", cs))
            return
        for s_ in body.succs(bb):
            explore(s_, cs, seen + (bb,))

    DOMAIN = [(0, 0xFF)] if mode == "bytes" else ALL
    explore(lp["body_bb"], DOMAIN, ())
    accept = norm_set(accept)
    reject = norm_set(reject)
    if undec:
        rep.undecided("char-set", INNER_FN, "accepted-set", "cannot decide the accepted character set: %s for %s" % (undec[0][0], show_set(undec[0][1])), body.loc())
    else:
        extra = minus(accept, ACCEPT)
        missing = minus(ACCEPT, accept)
        rep.check(accept == ACCEPT, "char-set", INNER_FN, "accepted-set", "accepted characters = %s" % show_set(accept), "accepted character set is %s; wrongly accepted %s, wrongly refused %s" % (show_set(accept), show_set(extra), show_set(missing)), body.loc())
        rep.check(norm_set(accept + reject) == DOMAIN, "char-set", INNER_FN, "total", "every character is either stored or reported" if mode != "bytes" else "every byte value is either stored or leads to the error (bytes >= 0x80 start a refused character)", "some characters reach neither the store nor the error", body.loc())
    if mode == "char_indices":
        # the premise of reading the byte offset as the position
        rep.check(not undec and accept == ACCEPT and norm_set(accept + reject) == DOMAIN, "first-offender", INNER_FN, "offset-is-position", "every stored character is one ASCII byte and the first refused one ends the function: byte offset = position at every store", "char_indices(): the byte offset is used as the position, but the characters stored before are not all single ASCII bytes / a refused character does not end the loop", body.loc())
    good = bool(err_blocks) and all(strip(v[4][0]) == c_term for v in err_blocks.values())
    if mode == "bytes":
        # the character reported is the one that starts at the refused byte: s[i..].chars().next()
        def char_at_i(t):
            t = strip(t)
            if util.is_call(t) and t[1].split("::")[-1] in ("unwrap_or", "unwrap", "expect", "unwrap_or_default") and t[1].startswith("std::option::Option"):
                t = strip(t[2][0])
            if not (util.is_call(t) and t[1].endswith("Chars<'a> as std::iter::Iterator>::next")):
                return False
            it = t[2][0]
            if strip(it)[0] == "mutref":
                it = se.call_old.get((t[3][:2], 0))
            it = strip(it) if it is not None else ("?",)
            if not util.is_call(it, "core::str::<impl str>::chars"):
                return False
            sl = strip(it[2][0])
            if not (util.is_call(sl) and sl[1].endswith("for str>::index") and strip(sl[2][0]) == ("param", 1)):
                return False
            rg = strip(sl[2][1])
            return rg[0] == "agg" and rg[2] == "std::ops::RangeFrom" and strip(rg[4][0]) == strip(i_term)
        good = bool(err_blocks) and all(char_at_i(v[4][0]) for v in err_blocks.values())
    rep.check(good, "first-offender", INNER_FN, "reported-char", "Err(CharacterNotAllowed(c)) carries the offending character", "the reported character is not the offending loop character", body.loc())
    # ------------------------------------------------------------ normal form
    good = False
    desc = "?"
    if len(store_blocks) == 1:
        loc, v = next(iter(store_blocks.values()))
        idx_ok = True if mode in ("zip", "bytes") else strip(loc[2]) == i_term
        if mode == "counter":
            ix = util.numnorm(loc[2])
            while ix[0] == "cast" or (util.is_call(ix) and "From<u8> for usize" in ix[1] and len(ix[2]) == 1):
                ix = util.numnorm(ix[2] if ix[0] == "cast" else ix[2][0])
            idx_ok = ix == util.numnorm(i_term)
        v = strip(v)
        # to_ascii_uppercase(c) as u8   or   (c as u8).to_ascii_uppercase()  (equal on the ASCII accept set)
        f1 = v[0] == "cast" and v[1] == "IntToInt" and v[3] == "u8" and util.is_call(v[2], "std::char::methods::<impl char>::to_ascii_uppercase") and v[2][2][0] == c_term
        f2 = util.is_call(v, "core::num::<impl u8>::to_ascii_uppercase") and strip(v[2][0]) == ("cast", "IntToInt", c_term, "u8") and accept == ACCEPT
        # ... or of the byte u8::try_from(c) produced (the same number as c where it exists)
        f3 = util.is_call(v, "core::num::<impl u8>::to_ascii_uppercase") and strip(v[2][0]) in [strip(a_) for a_ in aliases[1:]] and accept == ACCEPT
        f4 = mode == "bytes" and util.is_call(v, "core::num::<impl u8>::to_ascii_uppercase") and strip(v[2][0]) == strip(c_term) and accept == ACCEPT
        good = idx_ok and (f1 or f2 or f3 or f4)
        desc = show(v, maxdepth=3)
    rep.check(good, "normal-form", INNER_FN, "stored-byte", "array[position] = ASCII upper case of c", "stored byte is not the ASCII upper case of the character at its position: " + desc, body.loc())
    oks = [(bi, si) for bi, si, s in util.blocks_constructing(body, NS)]
    good = False
    if oks and len({se.assigns[o][1] for o in oks}) == 1:
        loc, v = se.assigns[oks[0]]
        tys = [fb.ty(f["ty"]).k for f in fb.adt_fields(NS)]
        arr_v = [x for x, t in zip(v[4], tys) if t == "array"]
        len_v = [x for x, t in zip(v[4], tys) if t == "int"]
        ln = util.numnorm(len_v[0]) if len_v else None
        len_ok = ln is not None and ln[0] == "cast" and ln[3] == "u8" and ln[2] in (("len", ("param", 1)),)
        if ln is not None and not len_ok:
            x = strip(len_v[0])
            len_ok = x[0] == "cast" and util.is_call(x[2], "std::iter::Iterator::count") and util.is_call(x[2][2][0], "core::str::<impl str>::chars")
        if ln is not None and not len_ok and mode == "counter":
            # the counter itself: one more per character stored, every stored character is ASCII
            # (one byte each), so at the end it is the byte length of the text
            len_ok = util.numnorm(len_v[0]) == util.numnorm(i_term) and accept == ACCEPT and len(store_blocks) == 1
        arr_ok = bool(arr_v) and (arr_v[0][0] in ("phi", "upd", "repeat", "after") or (arr_v[0][0] == "field" and arr_v[0][1][0] == "phi"))
        good = len_ok and arr_ok
    rep.check(good, "normal-form", INNER_FN, "length-field", "length = byte length (<= 16, fits u8), s = the filled array", "the length stored is not the byte length of the input", body.loc())
    zero_init = any(v[0] == "repeat" and v[1][:2] == ("int", 0) and v[2] == MAXLEN for (bi, si), (loc, v) in se.assigns.items())
    rep.check(zero_init, "normal-form", INNER_FN, "zero-padded", "the array starts as [0; 16] (zero padding)", "the text array is not zero-initialised")
    return True


def check_tail(ctx, rep, INNER_FN):
    fb = ctx.fb
    INNER = INNER_FN
    # ------------------------------------------------------------ constructors delegate
    # every public constructor is the validating function itself or hands a text view of its own
    # argument (as_ref / as_str / into / deref - nothing that edits the text) to another
    # constructor or to the validating function, and returns what that returns
    CONS = [NS + "::new", NS + "::from_str", NS + "::from_string", "<normalized_string::NormalizedString as std::convert::TryFrom<&str>>::try_from", "<normalized_string::NormalizedString as std::convert::TryFrom<std::string::String>>::try_from"]
    VIEWS = ("std::convert::AsRef::as_ref", "<T as std::convert::Into<U>>::into", "std::convert::Into::into", "std::string::String::as_str", "<std::string::String as std::ops::Deref>::deref", "<std::string::String as std::convert::AsRef<str>>::as_ref", "std::borrow::Borrow::borrow", "<T as std::convert::From<T>>::from")
    targets = {}
    verdict = {}
    for fn in CONS:
        if fn == INNER:
            verdict[fn] = (True, "is the validating function")
            continue
        fse = ctx.flat.run(fn)
        if fse is None:
            verdict[fn] = (None, "constructor not found")
            continue
        calls = [i for i in fse.term_info.values() if i.get("k") == "call"]
        dele = [c for c in calls if c["name"] in CONS or c["name"] == INNER or c["name"].startswith(INNER + "::<") or (c["name"].split("::<")[0] in CONS)]
        others = [c for c in calls if c not in dele and c["name"] not in VIEWS]
        ok = len(dele) == 1 and not others and strip(fse.ret) == strip(dele[0]["term"])
        why = "single call to %s with the argument" % (dele[0]["name"].split("::")[-1] if dele else "?")
        if ok:
            a = strip(dele[0]["args"][0])
            while util.is_call(a) and a[1] in VIEWS and len(a[2]) == 1:
                a = strip(a[2][0])
            ok = a == ("param", 1)
        if ok:
            targets[fn] = dele[0]["name"].split("::<")[0]
        verdict[fn] = (ok, why if ok else "%s is not a plain delegation to the validating function (calls %s)" % (fn, [c["name"].split("::")[-1] for c in calls]))
    # the chain of delegations ends in the validating function
    for fn in CONS:
        ok, why = verdict[fn]
        if ok is None:
            rep.violation("constructors", fn, "anchor", "constructor not found")
            continue
        seen_ = set()
        t = fn
        while ok and t != INNER:
            if t in seen_ or t not in targets:
                ok = verdict.get(t, (False,))[0] is True and t == INNER
                break
            seen_.add(t)
            t = targets[t]
            if t != INNER and not verdict.get(t, (False,))[0]:
                ok = False
        rep.check(bool(ok), "constructors", fn, "delegates", why if ok else "delegates", why if not verdict[fn][0] else "%s does not end in the validating function" % fn, (ctx.flat.run(fn).body.loc() if ctx.flat.run(fn) is not None else None))
    # ------------------------------------------------------------ derives and field order
    # equality, ordering and hashing follow the text: the zero-padded array determines the text
    # (no accepted character is 0) and orders like it (padding sorts below every character), so
    # == must compare the whole array, cmp must compare it first, hash must feed it; derived or
    # written by hand.  A copy is the same value.
    tys = [fb.ty(f["ty"]).k for f in fb.adt_fields(NS)]
    ai_ = tys.index("array") if "array" in tys else None
    eqf = util.eq_fields(ctx, NS)
    chain = util.cmp_chain(ctx, NS)
    pco = util.partial_cmp_consistent(ctx, NS)
    hf = util.hash_fields(ctx, NS)
    cv = util.clone_verdict(ctx, NS)
    probs = []
    if ai_ is None:
        probs.append("no text array field")
    if eqf is None or ai_ not in eqf:
        probs.append("== does not compare the whole text array (fields compared: %s)" % (sorted(eqf) if eqf else "not a field-wise conjunction"))
    if chain is None or not chain or chain[0] != ai_:
        probs.append("cmp does not compare the text array first (order of comparison: %s)" % (chain if chain else "not a lexicographic chain over fields"))
    elif eqf is not None and set(chain) != eqf:
        probs.append("cmp and == look at different fields (%s / %s)" % (chain, sorted(eqf)))
    if pco is not True:
        probs.append("partial_cmp is not Some(cmp)")
    if hf is None or ai_ not in hf or (eqf is not None and not set(hf) <= eqf):
        probs.append("hash does not feed the text array / feeds a field == ignores (%s)" % hf)
    if cv is None or not cv[2]:
        probs.append("Clone: %s" % (cv[3] if cv else "not implemented"))
    rep.check(not probs, "derives", NS, "derived", "Eq/Ord/Hash compare, order and feed the text array first / whole (derived or field-wise by hand); Clone is field for field", "; ".join(probs))
    rep.check(tys == ["array", "int"], "derives", NS, "field-order", "fields are (text array, length) in that order: a derived Ord compares the text first", "field order is %s: derived ordering would compare the length before the text" % tys) if "std::cmp::Ord" in fb.derived_traits(NS) else rep.ok("derives", NS, "field-order", "Ord is written by hand; its order of comparison is decided by rule derives/derived")
    # ------------------------------------------------------------ text view
    AR = "<normalized_string::NormalizedString as std::convert::AsRef<str>>::as_ref"
    ase = ctx.pure.run(AR)
    good = False
    if ase is not None:
        r = strip(ase.ret)
        if util.is_call(r) and r[1] in util.UNWRAP and util.is_call(r[2][0]) and r[2][0][1] in ("core::str::from_utf8", "std::str::from_utf8"):
            sl = strip(r[2][0][2][0])
            cut = None
            if util.is_call(sl) and sl[1].endswith("::index") and sl[2][1][0] == "agg" and sl[2][1][2] == "std::ops::RangeTo":
                cut = (sl[2][0], sl[2][1][4][0])
            elif util.is_call(sl) and sl[1].endswith("::index") and sl[2][1][0] == "agg" and sl[2][1][2] == "std::ops::Range" and util.numnorm(sl[2][1][4][0])[:2] == ("int", 0):
                cut = (sl[2][0], sl[2][1][4][1])        # s[0..length]
            elif sl[0] == "field" and sl[2] == 0 and util.is_call(sl[1], "core::slice::<impl [T]>::split_at") and len(sl[1][2]) == 2:
                cut = (strip(sl[1][2][0]), sl[1][2][1])      # the part before the split point: s.split_at(length).0
            if cut is not None:
                base = cut[0]
                from rules import arith as _ar

                end = _ar.norm(cut[1])
                end = ("field", ("param", 1), end[2]) if end[0] == "fld" and end[1] == ("param", 1) else end
                fs = fb.adt_fields(NS)
                ai = [i for i, f in enumerate(fs) if fb.ty(f["ty"]).k == "array"][0]
                li = [i for i, f in enumerate(fs) if fb.ty(f["ty"]).k == "int"][0]
                good = base == ("field", ("param", 1), ai) and end == ("field", ("param", 1), li)
    rep.check(good, "view", AR, "slice-by-length", "as_ref() = from_utf8(&s[..length])", "as_ref() is not the first `length` bytes of the stored array")
    DF = "<normalized_string::NormalizedString as std::fmt::Display>::fmt"
    dse = ctx.flat.run(DF)
    good = False
    if dse is not None:
        r = strip(dse.ret)
        good = util.is_call(r, "std::fmt::Formatter::<'a>::write_str") and util.is_call(r[2][1], AR) and strip(r[2][1][2][0]) == ("param", 1)
    rep.check(good, "view", DF, "display", "Display writes as_ref()", "Display does not write the normalised text")
    # ------------------------------------------------------------ who may construct
    sites = util.aggregates(fb, NS)
    absorbed = fb.absorbed()
    bad = [b.path for b, _, _, _ in sites if b.path != INNER and b.path not in absorbed and b.path not in util.faithful_clones(ctx)]
    rep.check(bool(sites) and not bad, "who-may-construct", NS, "aggregate", "constructed only by the validating function", "NormalizedString is also constructed in %s" % bad)
    pubf = [f["name"] for f in fb.adt_fields(NS) if f["pub"]]
    rep.check(not pubf, "who-may-construct", NS, "private-fields", "fields private", "public fields %s" % pubf)
