"""C05 - reconnect proofs verify only against the current, single-use challenge.

Decides: the boolean returned by `verify_reconnection_attempt` is exactly the whole-value
comparison (A2) of the presented proof with calculate_reconnect_proof(U, client data,
*current* server challenge, K) (A3); on every path the challenge field - and only it (A11) -
is overwritten with a FRESH value (A9), and the proof computation reads the challenge as
it was at entry; transcript H[U | client | server | K] (A5); the client draws a FRESH
challenge per call and passes (own, server's) in the same roles."""
import cfg
from rules import util, roles
from rules.util import P, canon, show_b, strip
from symex import show

EXPLANATION = __doc__
TRUSTED = ["rustc type check / MIR construction; extractor faithfulness", "rand::thread_rng is a CSPRNG whose 16-byte outputs do not repeat (probabilistic)", "SHA-1 collision resistance"]
NOT_DECIDED = ["that fresh 16-byte CSPRNG outputs never repeat"]
FLOORS = {"result": 1, "operands": 1, "whole-value": 1, "refresh": 1, "frame": 1, "transcript": 1, "client-fresh": 1, "client-roles": 1, "accessor": 2}
FN = "server::SrpServer::verify_reconnection_attempt"


def applicable(feats):
    return "srp-default-math" in feats


def server_roles(ctx):
    R = roles.srp_roles(ctx)
    rp = roles.inv(R["SrpProof"])

    def extra(c):
        if c == ("field", ("param", 1), rp.get("U")):
            return "U"
        if util.is_call(c, "srp_internal::calculate_session_key"):
            return "K"
        if util.is_call(c, "key::ReconnectData::randomized"):
            return "challenge"
        return None

    return roles.ctor_field_roles(ctx, "server::SrpProof::into_server", "server::SrpServer", {}, extra) or {}



def refresh_obligation(ctx, rep, sr=None, rule_refresh="refresh", rule_frame="frame"):
    """every path through verify_reconnection_attempt ends with the challenge field - and only
    it - overwritten by a FRESH value (shared with C15)"""
    if sr is None:
        sr = roles.inv(server_roles(ctx))
        if "challenge" not in sr:
            rep.violation(rule_refresh, FN, "challenge", "cannot bind the challenge role to a field of SrpServer")
            return
    body = ctx.fb.body(FN)
    if body is None:
        rep.violation(rule_refresh, FN, "challenge", "function not found")
        return
    dse = ctx.deep.run(FN)
    eff = dse.param_effects().get(1)
    if eff is None:
        rep.violation(rule_refresh, FN, "challenge", "no path overwrites the server challenge", body.loc())
    elif eff[0] == "phi":
        rep.violation(rule_refresh, FN, "challenge", "the server challenge is not replaced on every path (object state differs between return paths)", body.loc())
    else:
        fields = []
        t = eff
        while t[0] == "upd" and t[2][0] == "f":
            fields.append((t[2][1], t[3]))
            t = t[1]
        whole = t == ("deref", ("param", 1))
        ch = [v for i, v in fields if i == sr["challenge"]]
        if ch:
            okf, whyf = util.fresh(ctx, canon(ctx, dse, ch[0]))
            rep.check(okf, rule_refresh, FN, "challenge", "every attempt ends with the challenge overwritten: " + whyf, "challenge is overwritten, but not with a fresh full-width CSPRNG value: " + whyf, body.loc())
        else:
            rep.violation(rule_refresh, FN, "challenge", "the object is modified but the challenge field is not replaced", body.loc())
        others = [i for i, v in fields if i != sr["challenge"]]
        rep.check(whole and not others, rule_frame, FN, "only-challenge", "write frame of the call = {challenge field}", "the call also modifies other state (fields %s) - username/session key must survive every attempt" % others, body.loc())


def check(ctx, rep):
    fb = ctx.fb
    sr = roles.inv(server_roles(ctx))
    if not all(k in sr for k in ("U", "K", "challenge")):
        rep.violation("operands", "server::SrpServer", "roles", "cannot bind roles U/K/challenge to SrpServer fields: %s" % sr)
        return
    se = ctx.wrap.run(FN)
    if se is None:
        rep.violation("result", FN, "anchor", "function not found")
        return
    body = se.body

    def selff(r):
        return ("field", ("param", 1), sr[r])

    # ---- comparison
    cmps = [c for c in util.compare_sites(ctx, se) if ("param", 3) in [canon(ctx, se, a) for a in c["args"]]]
    if len(cmps) != 1:
        rep.violation("result", FN, "comparison", "expected exactly one equality test involving the presented proof, found %d" % len(cmps), body.loc())
        return
    c = cmps[0]
    ok, why = util.whole_compare(ctx, c)
    same = True
    rep.check(ok and same, "whole-value", FN, "proof-comparison", why, "proof comparison is not a whole-value equality: %s" % why, body.loc(c["bb"]))
    ops = [canon(ctx, se, a) for a in c["args"]]
    other = [o for o in ops if o != ("param", 3)]
    good = False
    desc = "?"
    if len(other) == 1 and util.is_call(other[0], "srp_internal::calculate_reconnect_proof"):
        a = other[0][2]
        desc = "calculate_reconnect_proof(%s)" % ", ".join(show(x, maxdepth=3) for x in a)
        good = tuple(a) == (selff("U"), ("param", 2), selff("challenge"), selff("K"))
    rep.check(good, "operands", FN, "proof-comparison", "presented proof vs " + desc + " [U, client data, challenge at entry, K]", "computed operand is not calculate_reconnect_proof(self.U, client_data, self.challenge (as at entry), self.K): " + desc, body.loc(c["bb"]))
    # ---- the returned bool is that comparison
    ret = strip(se.ret)
    neg = False
    while ret[0] == "unop" and ret[1] == "Not":
        neg = not neg
        ret = ret[2]
    if ret == strip(c["term"]):
        pol = (c["op"] == "eq") != neg
        rep.check(pol, "result", FN, "return", "returns the result of the comparison (true = equal)", "returns the negated comparison", body.loc())
    elif ret[0] == "phi":
        g = util.compare_gate(ctx, se, c)
        ins = se.phi_inputs.get((ret[2], ret[3]), {})
        good = g is not None and bool(ins)
        if good:
            sign = util.verdict_signs(ctx, se, c)
            for pb, v in ins.items():
                v = strip(v)
                if v == ("int", 1, "bool"):
                    good = good and sign(pb) == 1
                elif v == ("int", 0, "bool"):
                    good = good and sign(pb) == -1
                else:
                    good = False
        rep.check(good, "result", FN, "return", "true only behind the equal edge, false only behind the unequal edge", "returned boolean is not determined by the proof comparison alone", body.loc())
    else:
        rep.violation("result", FN, "return", "returned value is not the proof comparison: %s" % show(ret, maxdepth=3), body.loc())
    refresh_obligation(ctx, rep, sr)
    # ---- transcript
    pse = ctx.wrap.run("srp_internal::calculate_reconnect_proof")
    if pse is None:
        rep.violation("transcript", "srp_internal::calculate_reconnect_proof", "anchor", "function not found")
    else:
        b = util.bexpr(ctx, pse, pse.ret)
        want = ("H", (("text", P(1)), P(2), P(3), P(4)))
        rep.check(b == util.cb(want), "transcript", "srp_internal::calculate_reconnect_proof", "sha1", show_b(b), "expected %s, found %s" % (show_b(want), show_b(b)), pse.body.loc())
    # ---- accessors return the role fields
    for fn, role in (("server::SrpServer::reconnect_challenge_data", "challenge"), ("server::SrpServer::session_key", "K")):
        ase = ctx.wrap.run(fn)
        if ase is None:
            rep.violation("accessor", fn, role, "accessor not found")
            continue
        r = canon(ctx, ase, ase.ret)
        rep.check(r == selff(role), "accessor", fn, role, "returns the %s field" % role, "accessor returns %s, not the %s used by verification" % (show(r, maxdepth=3), role), ase.body.loc())
    # ---- client
    CF = "client::SrpClient::calculate_reconnect_values"
    cse = ctx.wrap.run(CF)
    dcse = ctx.deep.run(CF)
    cr = roles.ctor_field_roles(ctx, "client::SrpClientChallenge::verify_server_proof", "client::SrpClient", {}, lambda c: None)
    if cse is None or dcse is None:
        rep.violation("client-roles", CF, "anchor", "function not found")
        return
    # SrpClient roles via the challenge object's roles
    vs = ctx.wrap.run("client::SrpClientChallenge::verify_server_proof")
    cc = roles.ctor_field_roles(ctx, "client::SrpClientChallenge::new", "client::SrpClientChallenge", {1: "U"}, lambda c: "K" if util.is_call(c, "srp_internal::calculate_interleaved") else None)
    cci = roles.inv(cc or {})
    cl = roles.ctor_field_roles(ctx, "client::SrpClientChallenge::verify_server_proof", "client::SrpClient", {}, lambda c: {("field", ("param", 1), cci.get("U")): "U", ("field", ("param", 1), cci.get("K")): "K"}.get(c))
    cli = roles.inv(cl or {})
    ret = cse.ret
    if not (ret[0] == "agg" and ret[2] == "client::SrpClientReconnection") or not all(k in cli for k in ("U", "K")):
        rep.violation("client-roles", CF, "result", "result is not a single SrpClientReconnection aggregate / roles unbound", cse.body.loc())
        return
    fields = [f["name"] for f in fb.adt_fields("client::SrpClientReconnection")]
    vals = dict(zip(fields, ret[4]))
    dvals = dict(zip(fields, dcse.ret[4])) if dcse.ret[0] == "agg" else {}
    ch = canon(ctx, cse, vals.get("challenge_data"))
    pr = canon(ctx, cse, vals.get("proof"))
    okf, whyf = util.fresh(ctx, canon(ctx, dcse, dvals.get("challenge_data"))) if dvals else (False, "unreadable")
    rep.check(okf, "client-fresh", CF, "challenge_data", whyf, "client challenge is not fresh per call: " + whyf, cse.body.loc())
    good = util.is_call(pr, "srp_internal::calculate_reconnect_proof") and tuple(pr[2]) == (("field", ("param", 1), cli["U"]), ch, ("param", 2), ("field", ("param", 1), cli["K"]))
    rep.check(good, "client-roles", CF, "proof", "proof = calculate_reconnect_proof(U, the challenge that is sent, server challenge, K)", "client proof is not calculate_reconnect_proof(self.U, own sent challenge, server_challenge_data, self.K): %s" % show(pr, maxdepth=3), cse.body.loc())
