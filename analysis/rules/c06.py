"""C06 - world-login proof accepted iff name, session key and both seeds match.

Decides: one shared transcript SHA1[U | LE32(0) | LE32(client seed) | LE32(server seed) | K]
(A5); in each of the three expansion modules the client passes (server_seed, own seed) and
the server (own seed, client_seed), with the session key that keys the crypto (A3, sibling
cross-check); the crypto object / Ok is built only behind the equal edge of a whole-value
comparison of exactly (computed, presented) (A1, A2); the error carries both; `seed()` returns
the seed that is hashed; the crypto constructors are not public."""
from rules import util
from rules.util import P, canon, show_b
from symex import show

EXPLANATION = __doc__
TRUSTED = ["rustc type check / MIR construction; extractor faithfulness", "SHA-1 collision resistance", "u32::to_le_bytes is the little-endian encoding (core)"]
NOT_DECIDED = ["SHA-1 itself"]
WSP = "vanilla_header::internal::calculate_world_server_proof"
MODS = {"vanilla_header": (None, "vanilla_header::HeaderCrypto", "vanilla_header::HeaderCrypto"), "tbc_header": ("tbc-header", "tbc_header::HeaderCrypto", "tbc_header::HeaderCrypto"), "wrath_header": ("wrath-header", "wrath_header::ClientCrypto", "wrath_header::ServerCrypto")}


def floors_for(feats):
    n = sum(1 for m, (f, _, _) in MODS.items() if f is None or f in feats)
    return {"transcript": 1, "client-roles": n, "server-operands": n, "whole-value": n, "gate": 2 * n, "accessor": n, "error-content": n, "ctor-private": 2 * n if n else 0, "totality": 1}


def check(ctx, rep):
    fb = ctx.fb
    # "for every username, seed and session key": the proof has to come out for every one of them
    from . import c14
    c14.totality(ctx, rep, "totality", lambda r: "::ProofSeed::" in r or r.startswith("vanilla_header::internal::"), "the world proof (ProofSeed)")
    se = ctx.wrap.run(WSP)
    if se is None:
        rep.violation("transcript", WSP, "anchor", "function not found")
    else:
        b = util.bexpr(ctx, se, se.ret)
        want = ("H", (("text", P(1)), ("le", "u32", ("int", 0)), ("le", "u32", P(4)), ("le", "u32", P(3)), P(2)))
        rep.check(b == util.cb(want), "transcript", WSP, "sha1", show_b(b), "expected %s, found %s" % (show_b(want), show_b(b)), se.body.loc())
        sig = [fb.ty(i).s for i in se.body.d["inputs"]]
        rep.check(sig[2:] == ["u32", "u32"], "transcript", WSP, "seed-width", "both seeds are u32", "seed parameters are %s" % sig[2:])
    for mod, (feat, ccrypto, scrypto) in MODS.items():
        if feat and feat not in ctx.features:
            continue
        # ---- client side
        CF = "%s::ProofSeed::into_client_header_crypto" % mod
        cse = ctx.wrap.run(CF)
        if cse is None:
            rep.violation("client-roles", CF, "anchor", "function not found")
        else:
            r = canon(ctx, cse, cse.ret)
            good = False
            desc = show(r, maxdepth=4)
            if r[0] == "agg" and r[1] == "tuple" and len(r[4]) == 2:
                pr, cr = r[4]
                keyed = crypto_key(ctx, cse, cr, ccrypto)
                good = util.is_call(pr, WSP) and tuple(pr[2]) == (("param", 2), ("param", 3), ("param", 4), ("param", 1)) and keyed == ("param", 3)
                desc = "proof=%s crypto keyed by %s" % (show(pr, maxdepth=3), show(keyed, maxdepth=2) if keyed else "?")
            rep.check(good, "client-roles", CF, "proof", desc, "client proof is not world_proof(username, K, server_seed, own seed) with the crypto keyed by the same K: " + desc, cse.body.loc())
        # ---- accessor
        AF = "%s::ProofSeed::seed" % mod
        ase = ctx.wrap.run(AF)
        if ase is None:
            rep.violation("accessor", AF, "seed", "accessor not found")
        else:
            rep.check(canon(ctx, ase, ase.ret) == ("param", 1), "accessor", AF, "seed", "seed() returns the stored seed", "seed() returns %s" % show(canon(ctx, ase, ase.ret), maxdepth=3), ase.body.loc())
        # ---- server side
        SF = "%s::ProofSeed::into_server_header_crypto" % mod
        sse = ctx.wrap.run(SF)
        if sse is None:
            rep.violation("server-operands", SF, "anchor", "function not found")
            continue
        body = sse.body
        cmps = [c for c in util.compare_sites(ctx, sse) if ("param", 4) in [canon(ctx, sse, a) for a in c["args"]]]
        if len(cmps) != 1:
            rep.violation("server-operands", SF, "comparison", "expected exactly one equality test involving the presented proof, found %d" % len(cmps), body.loc())
            continue
        c = cmps[0]
        ok, why = util.whole_compare(ctx, c)
        same = True
        rep.check(ok and same, "whole-value", SF, "proof-comparison", why, "proof comparison is not a whole-value equality: %s" % why, body.loc(c["bb"]))
        ops = [canon(ctx, sse, a) for a in c["args"]]
        other = [o for o in ops if o != ("param", 4)]
        good = len(other) == 1 and util.is_call(other[0], WSP) and tuple(other[0][2]) == (("param", 2), ("param", 3), ("param", 1), ("param", 5))
        rep.check(good, "server-operands", SF, "proof-comparison", "presented vs world_proof(username, K, own seed, client_seed)", "computed operand is not world_proof(username, session_key, own seed, client_seed): %s" % [show(o, maxdepth=3) for o in other], body.loc(c["bb"]))
        g = util.compare_gate(ctx, sse, c)
        if g is None:
            rep.violation("gate", SF, "decision", "no branch on the result of the proof comparison", body.loc(c["bb"]))
            continue
        sw, eq_edge, ne_edge = g
        accept = [bi for bi, _, _ in util.blocks_constructing(body, "std::result::Result", "Ok")]
        accept += [bi for bi, _, _ in util.blocks_constructing(body, scrypto)]
        accept += util.calls_in(body, lambda t: (t.get("resolved") or "").startswith(scrypto + "::"))
        reject = [bi for bi, _, _ in util.blocks_constructing(body, "std::result::Result", "Err")] + [bi for bi, _, _ in util.blocks_constructing(body, "error::MatchProofsError")]
        util.check_gate(rep, body, SF, eq_edge, ne_edge, accept, reject, scrypto + "/Ok")
        # crypto keyed with the verified key
        keyed = None
        for (bi, si), (loc, v) in sse.assigns.items():
            if v[0] == "agg" and v[1] == "adt" and v[2] == "std::result::Result" and v[3] == 0:
                keyed = crypto_key(ctx, sse, canon(ctx, sse, v[4][0]), scrypto)
        rep.check(keyed == ("param", 3), "server-operands", SF, "crypto-key", "crypto keyed by the session key that was verified", "header crypto is not keyed by the verified session key (%s)" % (show(keyed, maxdepth=3) if keyed else "unreadable"), body.loc())
        for bi, si, s in util.blocks_constructing(body, "error::MatchProofsError"):
            loc, v = sse.assigns[(bi, si)]
            vals = [canon(ctx, sse, x) for x in v[4]]
            order = dict(zip(s["rv"]["fields"], vals))
            good = order.get("client_proof") == ("param", 4) and len(other) == 1 and order.get("server_proof") == other[0]
            rep.check(good, "error-content", SF, "MatchProofsError", "error carries presented and computed proof", "error does not carry (presented, computed): %s" % {k: show(v, maxdepth=2) for k, v in order.items()}, body.loc(bi))
        # constructors of the crypto objects are crate-private
        for ct in sorted({ccrypto, scrypto}):
            nb = fb.body(ct + "::new")
            rep.check(nb is not None and not nb.is_pub(), "ctor-private", ct + "::new", "visibility", "constructor is not public (%s)" % (nb.d.get("vis") if nb else "?"), "crypto constructor is public: header crypto obtainable without a verified proof")
            a = fb.adts.get(ct)
            pubf = [f["name"] for f in a["variants"][0]["fields"] if f["pub"]] if a else ["<missing>"]
            rep.check(not pubf, "ctor-private", ct, "private-fields", "fields private", "public fields %s" % pubf)


def crypto_key(ctx, se, t, adt):
    """the session-key operand a crypto value was built from (new(key) call or aggregates of
    halves each built from the same key)"""
    t = util.strip(t)
    keys = set()

    def rec(x, d=0):
        if d > 4:
            keys.add(("unknown",))
            return
        if util.is_call(x) and x[1].endswith("::new") and x[1] in ctx.fb.bodies:
            keys.add(util.canon(ctx, se, x[2][0]))
        elif x[0] == "agg" and x[1] == "adt":
            for o in x[4]:
                o = util.strip(o)
                if o[0] in ("agg",) or util.is_call(o):
                    rec(o, d + 1)
                elif o[0] == "int":
                    continue
                else:
                    keys.add(util.canon(ctx, se, o))
        else:
            keys.add(("unknown",))

    rec(t)
    return next(iter(keys)) if len(keys) == 1 else None
