"""Field roles (A3): which field of an account / handshake object holds which protocol value,
derived from the *public constructor's parameter positions* and the flow of those values,
never from private field names."""
from rules import util
from symex import show


def ctor_field_roles(ctx, fn, adt, param_roles, extra=None, engine="api"):
    """analyse constructor `fn`: every aggregate of `adt` built there; returns
    {field index: role} where an operand that is (canonically) parameter j gets
    param_roles[j]; `extra(canon_term)` may name other operands."""
    se = getattr(ctx, engine).run(fn)
    if se is None:
        return None
    roles = {}
    found = False
    aggs = [v for (bb, si), (loc, v) in se.assigns.items() if v[0] == "agg" and v[1] == "adt" and v[2] == adt]
    # aggregates built inside inlined private helpers show up in the result term
    from symex import walk as _walk

    terms = [se.ret] if se.ret is not None else []
    if se.ret is not None and se.ret[0] == "phi":
        terms += list(se.phi_inputs.get((se.ret[2], se.ret[3]), {}).values())
    # `fallible().map(|v| Adt { .. v .. })`: the aggregate is built in the mapped closure, on the
    # Ok / Some payload of the receiver
    for t in list(terms):
        ts = util.strip(t)
        if util.is_call(ts) and ts[1] in ("std::result::Result::<T, E>::map", "std::option::Option::<T>::map", "core::bool::<impl bool>::then", "std::option::Option::<T>::and_then") and len(ts[2]) == 2:
            mi = se.term_info.get(ts[3][1], {})
            cl = (mi.get("locargs") or mi.get("args") or (None, None))[1] if len(mi.get("args", ())) == 2 else ts[2][1]
            if cl is not None and cl[0] == "agg" and cl[1] == "closure":
                caps = tuple(util.resolve_locals(se, ts[3][1], c) if c[0] in ("ref", "refv") or any(y[0] == "local" for y in _walk(c)) else c for c in cl[4])
                cl2 = (cl[0], cl[1], cl[2], cl[3], caps)
                payload = ("field", ("downcast", ("call", "<std::result::Result<T, E> as std::ops::Try>::branch", (ts[2][0],), ts[3]), 0), 0)
                v = util.closure_value(ctx, cl2, args=(payload,))
                if v is not None:
                    terms.append(v)
    for t in terms:
        for x in _walk(t):
            if x[0] == "agg" and x[1] == "adt" and x[2] == adt and x not in aggs:
                aggs.append(x)
    for v in aggs:
        found = True
        for i, op in enumerate(v[4]):
            c = util.canon(ctx, se, op)
            r = None
            if c[0] == "param" and c[1] in param_roles:
                r = param_roles[c[1]]
            elif extra:
                r = extra(c)
            if r is not None:
                roles[i] = r
    return roles if found else None


def srp_roles(ctx):
    """returns dict with field->role maps for the SRP typestate structs, or raises KeyError"""
    out = {}
    v = ctor_field_roles(ctx, "server::SrpVerifier::from_database_values", "server::SrpVerifier", {1: "U", 2: "v", 3: "salt"})
    out["SrpVerifier"] = v or {}
    inv = {r: i for i, r in (v or {}).items()}

    def proof_extra(c):
        if c[0] == "field" and c[1] == ("param", 1):
            return (v or {}).get(c[2])
        if c[0] == "try_ok" and util.is_call(c[1], "srp_internal::calculate_server_public_key"):
            a = c[1][2]
            if len(a) == 2 and a[0] == ("field", ("param", 1), inv.get("v")) and a[1] == ("param", 2):
                return "B"
            return "B?"
        return None

    p = ctor_field_roles(ctx, "server::SrpVerifier::with_specific_private_key", "server::SrpProof", {2: "b"}, proof_extra)
    out["SrpProof"] = p or {}
    return out


def inv(m):
    return {r: i for i, r in m.items()}
