"""C01 - honest client and server always authenticate and agree on the session key.

Decides the premises of the SRP-6 agreement lemma: (a) both sides compute the SRP-6 formulas
(shared with C03, A6); (b) both sides derive u = H(A | B) with A first, K by the same
interleave function from their S, M1 by the same transcript (the client's xor is the one the
constant pre-computes: C03.d) and M2 by the same function of (A, M1, K) (A3/A5); (c) every
big-integer result is written little-endian into the *prefix* of a zeroed fixed-width array
at all copy sites (A7/A8 shape rule); (d) the account record's accessors, constructor
parameters and uses name the same fields (storage round trip = identity, A3 by role);
(e) user name and password enter every hash through the upper-cased NormalizedString view.
The algebraic lemma itself ((A v^u)^b = (B - k g^x)^(a+ux) mod N) is trusted."""
import cfg
from rules import util, roles, c03
from rules.util import P, strip, canon, show_b
from symex import show, walk

EXPLANATION = __doc__
TRUSTED = ["rustc / extractor", "SRP-6 agreement lemma for the five checked formulas; BigInt::modpow returns the non-negative residue also for a negative base", "sha1, num-bigint"]
NOT_DECIDED = ["the algebraic lemma itself", "SHA-1"]
# padding: the three named copy sites and to_bytes_le are required one by one (a missing one is a
# violation of its own); the From<Integer> impls are checked wherever they exist - unused ones may go
FLOORS = {"formula": 5, "same-derivation": 5, "padding": 4, "roundtrip": 7, "case": 2, "honest-keys-accepted": 1}


def applicable(feats):
    return "srp-default-math" in feats


def peel_ident(t):
    t = strip(t)
    while util.is_call(t) and (t[1] in util.IDENT_CALLS or t[1].endswith("::to_vec") or t[1] == "<std::vec::Vec<T, A> as std::ops::Deref>::deref"):
        t = strip(t[2][0])
    return t


PADDERS = {"bigint::Integer::to_padded_32_byte_array_le": 32}


_PADDER_MEMO = {}


def padder_width(ctx, name):
    """W when the crate-local function `name` is itself a fixed-width copy site: it returns
    [u8; W] and its body is the zero-padded little-endian copy of its big-integer parameter"""
    key = (id(ctx.fb), name)
    if key in _PADDER_MEMO:
        return _PADDER_MEMO[key]
    _PADDER_MEMO[key] = None
    b = ctx.fb.body(name)
    if b is not None and b.kind in ("Fn", "AssocFn") and "output" in b.d and len(b.d.get("inputs", [])) == 1:
        out = ctx.fb.ty(b.d["output"])
        if out.k == "array" and out.len is not None and ctx.fb.ty(b.d["inputs"][0]).peel_refs().path == "bigint::Integer":
            se = ctx.flat.run(name)
            if se is not None and direct_shape(ctx, se, name, out.len)[0]:
                _PADDER_MEMO[key] = out.len
    return _PADDER_MEMO[key]


def padding_rule(ctx, rep, fn, width):
    se = ctx.flat.run(fn)
    if se is None:
        rep.violation("padding", fn, "anchor", "copy site not found")
        return
    good, why = direct_shape(ctx, se, fn, width)
    rep.check(good, "padding", fn, "le-prefix-zero-padded", why, "big-integer result is not copied little-endian into the prefix of a zeroed %d-byte array: %s" % (width, why), se.body.loc())


def direct_shape(ctx, se, fn, width):
    body = se.body
    # the value returned / stored: after<index_mut(buf, Range{0, len(V)})>([0; width]), or the
    # low part of buf.split_at_mut(len(V))
    def is_cut(t):
        return t[0] == "after" and util.is_call(t[1]) and (t[1][1].endswith("::index_mut") or t[1][1].split("::")[-1] == "split_at_mut")

    cands = [t for t in walk(strip(se.ret)) if is_cut(t)]
    if se.ret[0] == "phi":
        for v in se.phi_inputs.get((se.ret[2], se.ret[3]), {}).values():
            cands += [t for t in walk(strip(v)) if is_cut(t)]
    # also aggregates assigned on the way (client_try_from_bigint returns Ok(Self{key}))
    for (bi, si), (loc, v) in se.assigns.items():
        if v[0] == "agg":
            cands += [t for t in walk(strip(v)) if is_cut(t)]
    cands = list({c for c in cands})
    good = False
    why = "%d index_mut-based copies" % len(cands)
    if not cands:
        # delegation to another (separately checked) padding function on the same value
        def pw(n):
            return PADDERS.get(n) or (padder_width(ctx, n) if n != fn and n in ctx.fb.bodies else None)

        dele = [i for i in se.term_info.values() if i.get("k") == "call" and i["name"] != fn and pw(i["name"]) is not None]
        if len(dele) == 1 and strip(dele[0]["args"][0]) == ("param", 1):
            used = any(strip(dele[0]["term"]) in set(walk(strip(v))) for (bi, si), (loc, v) in se.assigns.items() if v[0] == "agg") or strip(dele[0]["term"]) in set(walk(strip(se.ret))) or any(strip(dele[0]["term"]) in set(walk(strip(i["term"]))) for i in se.term_info.values() if i.get("k") == "call" and i is not dele[0])
            good = used and width == pw(dele[0]["name"])
            why = "delegates to %s (a zero-padding %d-byte copy, checked separately)" % (dele[0]["name"], pw(dele[0]["name"]))
    if len(cands) == 1:
        c = cands[0]
        base = c[3]
        rng = c[1][2][1]
        base_ok = base[0] == "repeat" and base[1][:2] == ("int", 0) and base[2] == width
        rng_ok = False
        end_t = None
        is_split = c[1][1].split("::")[-1] == "split_at_mut"
        if is_split:
            rng_ok, end_t = True, rng         # [0, mid) is the first of the two parts
        elif rng[0] == "agg" and rng[2] == "std::ops::Range" and rng[4][0][:2] == ("int", 0):
            rng_ok, end_t = True, rng[4][1]
        elif rng[0] == "agg" and rng[2] == "std::ops::RangeTo":
            rng_ok, end_t = True, rng[4][0]
        src_len = None
        if rng_ok:
            e = util.numnorm(end_t)
            if e[0] == "len":
                src_len = peel_ident(e[1])
        copies = [i for i in se.term_info.values() if i.get("k") == "call" and i["name"].split("::")[-1] in ("clone_from_slice", "copy_from_slice")]
        copy_ok = False
        if len(copies) == 1 and src_len is not None:
            cp = copies[0]
            dest = cp["locargs"][0]
            d = dest[1] if dest[0] == "ref" else None
            dest_ok = d is not None and d[0] == "deref" and (strip(d[1]) == ("field", strip(c[1]), 0) if is_split else strip(d[1]) == strip(c[1]))
            src = peel_ident(cp["args"][1])
            copy_ok = dest_ok and src == src_len
        if copy_ok:
            # nothing else writes through the borrowed part(s): the copy is the only call handed
            # (a piece of) the cut, and no store goes through it
            cut = strip(c[1])

            def touches(x):
                return any(y == cut for y in walk(strip(x)))

            others = [i for i in se.term_info.values() if i.get("k") == "call" and i is not copies[0] and strip(i.get("term", ("?",))) != cut and any(touches(a[1]) for a in i.get("locargs", ()) if isinstance(a, tuple) and a and a[0] == "ref")]
            stores = [1 for (bi_, si_), (loc_, v_) in se.assigns.items() if loc_[0] in ("index", "cindex", "deref") and touches(loc_)]
            if others or stores:
                copy_ok = False
        v_ok = src_len is not None and util.is_call(src_len, "bigint::Integer::to_bytes_le") and strip(src_len[2][0]) == ("param", 1)
        good = base_ok and rng_ok and copy_ok and v_ok
        why = "array = [0; %d]; array[0..len(v)] = v where v = to_bytes_le(value)" % width if good else "zero base %s, range from 0 %s, copy of the same bytes %s, source is to_bytes_le(param) %s" % (base_ok, rng_ok, copy_ok, v_ok)
    return good, why


def check(ctx, rep):
    fb = ctx.fb
    # ---- (a) formulas
    c03.formulas(ctx, rep)
    # ---- (b) same derivations on both sides
    se = ctx.wrap.run("srp_internal::calculate_session_key")
    good = False
    if se is not None:
        r = canon(ctx, se, se.ret)
        if util.is_call(r, "srp_internal::calculate_interleaved") and util.is_call(r[2][0], "srp_internal::calculate_S"):
            s = r[2][0][2]
            good = s[0] == ("param", 1) and s[1] == ("param", 3) and util.is_call(s[2], "srp_internal::calculate_u") and s[2][2] == (("param", 1), ("param", 2)) and s[3] == ("param", 4)
    rep.check(good, "same-derivation", "srp_internal::calculate_session_key", "server-wiring", "K = interleave(S(A, v, u(A, B), b))", "server session key is not interleave(calculate_S(A, v, calculate_u(A, B), b))")
    c03.client_group(ctx, rep_filter(rep, "same-derivation"))
    # M1: the two transcripts agree once the xor leaf is identified
    t1 = ctx.wrap.run("srp_internal::calculate_client_proof")
    t2 = ctx.wrap.run("srp_internal_client::calculate_client_proof_with_custom_value")
    good = False
    if t1 is not None and t2 is not None:
        b1 = util.bexpr(ctx, t1, t1.ret)
        r2 = t2.ret
        fp = c03.default_group_fast_path(ctx, t2)
        if fp is not None:
            # (the built-in constant only where the announced group is the built-in one: C03)
            r2 = util.map_term(strip(t2.ret), lambda t_: strip(fp[1]) if t_ == fp[0] else None)
        b2 = util.bexpr(ctx, t2, r2)
        good = b1[0] == "H" and b2[0] == "H" and b1[1][1:] == b2[1][1:] and b1[1][0][0] == "const" and b2[1][0] == ("call", "srp_internal::calculate_xor_hash", (P(6), P(7)))
    elif t1 is not None and t2 is None:
        # the client's M1 function was folded into its caller: the end-to-end transcript of the
        # constructor (C03 client view) against the server's function, leaf by leaf
        cv = c03.client_view(ctx)
        b1 = util.cb(util.bexpr(ctx, t1, t1.ret))
        good = cv["M1"] and b1[0] == "H" and len(b1[1]) == 6 and b1[1][0][0] == "const" and b1[1][1] == util.cb(("H", (("text", P(1)),))) and b1[1][2:] == (P(5), P(3), P(4), P(2))
    rep.check(good, "same-derivation", "srp_internal::calculate_client_proof", "m1-siblings", "server's and client's M1 transcripts are identical except for the (pre)computed xor leaf", "the server's expected M1 and the client's M1 hash different transcripts")
    # M2: both sides call calculate_server_proof(A, M1, K)
    users = [b.path for b, bi, t in util.callers_of(fb, "srp_internal::calculate_server_proof") if not b.path.startswith("srp_internal::test")]
    rep.check(set(users) >= {"server::SrpProof::into_server", "client::SrpClientChallenge::verify_server_proof"}, "same-derivation", "srp_internal::calculate_server_proof", "m2-shared", "M2 is computed by one function on both sides", "server and client do not share the M2 computation (callers: %s)" % users)
    # K: one producer of SessionKey for both sides
    prod = []
    work = [b.path for b, bi, t in util.callers_of(fb, "srp_internal::calculate_interleaved")]
    seen = set()
    while work:
        p_ = work.pop()
        if p_ in seen:
            continue
        seen.add(p_)
        if getattr(ctx, "fresh_pure", None) and ctx.fresh_pure(p_, 0):
            # a helper extracted by a refactoring: what matters is who calls it
            work.extend(b.path for b, bi, t in util.callers_of(fb, p_))
        else:
            prod.append(p_)
    prod.sort()
    rep.check("srp_internal::calculate_session_key" in prod and any(p_.startswith("client::SrpClientChallenge::") for p_ in prod) and all(p_ == "srp_internal::calculate_session_key" or p_.startswith("client::SrpClientChallenge::") for p_ in prod), "same-derivation", "srp_internal::calculate_interleaved", "k-shared", "both sides derive K with the same interleave function", "K producers: %s" % prod)
    # ---- (c) padding at the copy sites
    # the big-integer wrapper's own fixed-width export(s): whatever they are called, every
    # function of `Integer` that turns the value into a byte array (`to_padded_32_byte_array_le`,
    # a const-generic `to_padded_array_le::<32>` ...) - at least one must exist
    sites = []
    for b in fb.bodies.values():
        if b.path.startswith("bigint::Integer::") and b.kind in ("Fn", "AssocFn") and "output" in b.d and len(b.d.get("inputs", [])) == 1 and not b.d.get("generics"):
            out = fb.ty(b.d["output"])
            if out.k == "array" and out.len is not None and fb.ty(b.d["inputs"][0]).peel_refs().path == "bigint::Integer":
                sites.append((b.path, out.len))
    if not sites:
        sites.append(("bigint::Integer::to_padded_32_byte_array_le", 32))      # reported as missing
    sites += [("key::PublicKey::try_from_bigint", 32), ("key::PublicKey::client_try_from_bigint", 32)]
    for b in fb.bodies.values():
        if b.path.endswith("as std::convert::From<bigint::Integer>>::from") and b.path.startswith("<key::"):
            adt = b.path[1:].split(" as ")[0]
            fs = fb.adt_fields(adt)
            w = fb.ty(fs[0]["ty"]).len if fs else None
            sites.append((b.path, w))
    for fn, w in sites:
        padding_rule(ctx, rep, fn, w)
    tse = ctx.big.run("bigint::Integer::to_bytes_le")
    good = False
    if tse is not None:
        r = strip(tse.ret)
        good = r[0] == "field" and r[2] == 1 and util.is_call(r[1], "num_bigint::BigInt::to_bytes_le") and strip(r[1][2][0]) == ("field", ("param", 1), 0)
    rep.check(good, "padding", "bigint::Integer::to_bytes_le", "magnitude-le", "to_bytes_le = little-endian magnitude bytes of the value", "Integer::to_bytes_le is not BigInt::to_bytes_le(value).1")
    # ---- (d) storage round trip by role
    R = roles.srp_roles(ctx)
    vi = roles.inv(R["SrpVerifier"])
    pi = roles.inv(R["SrpProof"])
    acc = [("server::SrpVerifier::password_verifier", "v", vi), ("server::SrpVerifier::salt", "salt", vi), ("server::SrpProof::salt", "salt", pi), ("server::SrpProof::server_public_key", "B", pi)]
    for fn, role, m in acc:
        ase = ctx.wrap.run(fn)
        good = ase is not None and role in m and canon(ctx, ase, ase.ret) == ("field", ("param", 1), m[role])
        rep.check(good, "roundtrip", fn, role, "%s() returns the %s field" % (fn.split("::")[-1], role), "accessor %s does not return the %s that the constructor stored / the handshake uses" % (fn, role))
    ase = ctx.wrap.run("server::SrpVerifier::username")
    good = False
    if ase is not None and "U" in vi:
        r = canon(ctx, ase, ase.ret)
        good = util.is_call(r, "<normalized_string::NormalizedString as std::convert::AsRef<str>>::as_ref") and r[2][0] == ("field", ("param", 1), vi["U"])
    rep.check(good, "roundtrip", "server::SrpVerifier::username", "U", "username() is the text of the stored name", "username() does not return the stored user name")
    # the fields the handshake uses are those roles (verifier/salt flow into SrpProof unchanged)
    need = {"U", "B", "salt", "b", "v"}
    rep.check(need <= set(pi), "roundtrip", "server::SrpVerifier::with_specific_private_key", "flows", "SrpProof takes U, v, salt unchanged from the record, b fresh, B = f(v, b)", "SrpProof fields do not all come from the record roles: %s" % R["SrpProof"])
    wse = ctx.wrap.run("server::SrpVerifier::with_specific_salt")
    good = False
    if wse is not None:
        r = canon(ctx, wse, wse.ret)
        if r[0] == "agg" and r[2] == "server::SrpVerifier":
            ops = r[4]
            good = ops[vi["U"]] == ("param", 1) and ops[vi["salt"]] == ("param", 3) and util.is_call(ops[vi["v"]], "srp_internal::calculate_password_verifier") and ops[vi["v"]][2] == (("param", 1), ("param", 2), ("param", 3))
    rep.check(good, "roundtrip", "server::SrpVerifier::with_specific_salt", "registration", "record = (U, v(U, P, salt), that same salt)", "registration does not store calculate_password_verifier(U, P, salt) together with the same salt")
    # ---- (e) case: every hash takes U / P through NormalizedString::as_ref
    for fn, args in (("srp_internal::calculate_x", (1, 2)), ("srp_internal::calculate_client_proof", (1,))):
        tse = ctx.wrap.run(fn)
        good = False
        if tse is not None:
            b = util.bexpr(ctx, tse, tse.ret)
            texts = set()

            def rec(x):
                if x[0] == "text":
                    texts.add(x[1])
                for y in x[1:]:
                    if isinstance(y, tuple):
                        if y and isinstance(y[0], str):
                            rec(y)
                        else:
                            for z in y:
                                if isinstance(z, tuple) and z and isinstance(z[0], str):
                                    rec(z)

            rec(b)
            good = texts == {P(a) for a in args}
            tys = [tse.body.local_ty(a).peel_refs().path for a in args]
            good = good and all(t == "normalized_string::NormalizedString" for t in tys)
        rep.check(good, "case", fn, "normalized-text", "name/password enter the hash as the normalised (upper-cased) text", "a hash takes the name/password in another form than NormalizedString::as_ref()")
    # ... and that view is the case-folded text: the C13 obligations about what is stored, shown
    # and who may construct are necessary for "typed in any letter case"
    from . import c13
    c13.check(ctx, rep_select(rep, "case", {"normal-form", "view", "who-may-construct", "constructors"}))
    # a copy of the stored verifier / of the challenge state is the same value
    util.clone_fidelity(ctx, rep, "roundtrip", ("server::SrpVerifier", "server::SrpProof", "server::SrpServer", "client::SrpClientChallenge", "client::SrpClient"))
    # "every pair of ephemeral private keys": the public-key validation must not refuse a key an
    # honest peer can produce - exactly 0 and N (mod N) are refused, nothing else (C04's rule)
    from . import c04
    c04.check(ctx, rep_select(rep, "honest-keys-accepted", {"reject-set"}))


class rep_filter:
    """re-files the obligations of a shared rule under another rule name"""

    def __init__(self, rep, rule):
        self.rep, self.rule = rep, rule

    def check(self, cond, rule, fn, role, a, b, loc=None):
        return self.rep.check(cond, self.rule, fn, role, a, b, loc)

    def violation(self, rule, fn, role, d, loc=None):
        return self.rep.violation(self.rule, fn, role, d, loc)

    def ok(self, rule, fn, role, d="", loc=None):
        return self.rep.ok(self.rule, fn, role, d, loc)

    def undecided(self, rule, fn, role, d, loc=None):
        return self.rep.undecided(self.rule, fn, role, d, loc)


class rep_select(rep_filter):
    """re-files only the obligations of the listed rules; the others are dropped (they are
    claimed by the property the shared rule belongs to)"""

    def __init__(self, rep, rule, keep):
        self.rep, self.rule, self.keep = rep, rule, keep

    def check(self, cond, rule, fn, role, a, b, loc=None):
        if rule in self.keep:
            return self.rep.check(cond, self.rule, fn, rule + ":" + role, a, b, loc)

    def violation(self, rule, fn, role, d, loc=None):
        if rule in self.keep:
            return self.rep.violation(self.rule, fn, rule + ":" + role, d, loc)

    def ok(self, rule, fn, role, d="", loc=None):
        if rule in self.keep:
            return self.rep.ok(self.rule, fn, rule + ":" + role, d, loc)

    def undecided(self, rule, fn, role, d, loc=None):
        if rule in self.keep:
            return self.rep.undecided(self.rule, fn, rule + ":" + role, d, loc)
