#!/bin/sh
# usage: tools/fa.sh <refactor-name> Cxx [Cyy..] : show findings of checks on the patched scratch copy
N=$1; shift; D=$(tools/scratch.sh refactors/$N/patch.diff /tmp/fa_$N) || exit 1
for p in "$@"; do WOWSRP_REPO=$D WOWSRP_SLOT=fa WOWSRP_EVIDENCE_DIR=$D/_ev WOWSRP_REPLAY_DIR=$D/_rp ./check $p | grep -E "^C|finding|function"; done
