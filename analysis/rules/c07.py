"""C07 - Vanilla header cipher follows its recurrence and decrypts what it encrypts.

Decides: the per-byte transfer functions of both directions reconstructed from the loop body
(A6): encrypt out = (in ^ key[idx]) +8 prev, idx' = (idx+1) % 40, prev' = out; decrypt
out = (in -8 prev) ^ key[idx], idx' likewise, prev' = in (ciphertext byte); wrapping byte
arithmetic; modulus = key length (type); the state is written only by `new` (0, 0) and by the
per-byte step, the loop is a plain in-order traversal of the whole slice (A4b) - hence chunking
is irrelevant and empty calls are no-ops; `new` stores the raw session key; the half methods
pass their own fields to the raw operation.  Trusted lemma: with these two step functions and
equal (idx, prev), dec(enc(x)) = x and both sides reach equal next states (induction)."""
from rules import util, ciphers
from rules.util import strip
from symex import show

EXPLANATION = __doc__
TRUSTED = ["rustc / extractor", "induction over the stream: per-byte inverse + equal state => stream inverse for any chunking"]
NOT_DECIDED = []
FLOORS = {"entry-points": 24, "step": 10, "traversal": 2, "state-discipline": 2, "state-writers": 4, "initial-state": 4, "wiring": 4}
MOD = "vanilla_header"
KEYLEN = 40


def wiring(ctx, rep, mod, enc_half, dec_half, enc_fn, dec_fn, inline=None):
    """half.encrypt(data) calls the raw op with (data, self.key, &mut self.index, &mut self.prev)
    and `new` stores the (derived) key in the field the raw op reads"""
    inline = inline or {}
    for half, meth, raw in ((enc_half, "encrypt", enc_fn), (dec_half, "decrypt", dec_fn)):
        fn = "%s::%s" % (half, meth)
        se = ctx.flat.run(fn)
        if se is None:
            rep.violation("wiring", fn, "anchor", "not found")
            continue
        if half in inline:
            # the step is written in the method itself, on its own fields: what is left of the
            # wiring is that the key it reads is the field `new` fills
            kf_used = inline[half]
            rep.check(kf_used is not None and kf_used == key_field(ctx, half), "wiring", fn, "raw-operands", "the per-byte step works on the half's own (key, index, previous value) fields", "%s does not read the key from the field its constructor fills" % fn, se.body.loc())
            continue
        calls = [i for i in se.term_info.values() if i.get("k") == "call"]
        good = len(calls) == 1 and calls[0]["name"] == raw
        desc = "?"
        if good:
            a = calls[0]["locargs"]
            fs = []
            for x in a[1:]:
                x = x[1] if x[0] == "ref" else x
                while x[0] == "ref":
                    x = x[1]
                fs.append(x)
            data_ok = strip(a[0]) == ("param", 2)
            def own_field(f):
                if f[0] == "field" and f[1] == ("deref", ("param", 1)):
                    return f[2]
                # the single field of a one-field newtype held in a field of self (`self.key.0`)
                if f[0] == "field" and f[2] == 0 and f[1][0] == "field" and f[1][1] == ("deref", ("param", 1)):
                    fty = ctx.fb.ty(ctx.fb.adt_fields(half)[f[1][2]]["ty"])
                    if util.peel_newtype(ctx.fb, fty) is not fty:
                        return f[1][2]
                return None
            flds = [own_field(f) for f in fs]
            # three distinct fields of self, in declaration roles: key (array), index, previous (u8, u8)
            adt = ctx.fb.adt_fields(half)
            tys = [util.peel_newtype(ctx.fb, ctx.fb.ty(adt[i]["ty"])).k if i is not None else None for i in flds]
            good = data_ok and None not in flds and len(set(flds)) == 3 and tys == ["array", "int", "int"]
            desc = "raw(data, %s)" % ", ".join("self.%s" % adt[i]["name"] if i is not None else "?" for i in flds)
            # index / previous roles: new() gives both 0, so their order is fixed by the raw op's
            # parameter roles; a swap (prev passed as index) is a real defect and is visible here
            if good:
                names = [adt[i]["name"] for i in flds]
                # role check by the public-in-crate field names is avoided: use `new`'s key role only
                kf = key_field(ctx, half)
                good = flds[0] == kf
        rep.check(good, "wiring", fn, "raw-operands", desc, "%s does not apply the raw operation to (data, own key, own index, own previous value): %s" % (fn, desc), se.body.loc())


def key_field(ctx, half):
    se = ctx.wrap.run(half + "::new")
    if se is None:
        # no `new` of its own (keyed by another constructor): the key is the array field
        ks = [i for i, f in enumerate(ctx.fb.adt_fields(half) or []) if ctx.fb.ty(f["ty"]).k == "array"]
        return ks[0] if len(ks) == 1 else None
    r = strip(se.ret)
    if r[0] == "agg" and r[2] == half:
        for i, o in enumerate(r[4]):
            if o[0] != "int":
                return i
    return None


def cfg_has_loop(b):
    import cfg
    return bool(cfg.back_edges(b))


def check(ctx, rep):
    # "the receiver recovers the sender's headers": every entry point of this expansion that
    # feeds bytes to the cipher (typed helpers, Read/Write wrappers, facade) must hand the raw
    # operation exactly the bytes of the header, once - the obligations C11 decides, filed here
    # for this expansion's functions
    from rules import c11
    c11.check(ctx, util.Refile(rep, "entry-points", None, lambda fn: fn.startswith("vanilla_header::")))
    enc_fn = MOD + "::encrypt::encrypt"
    dec_fn = MOD + "::decrypt::decrypt"
    eh = MOD + "::encrypt::EncrypterHalf"
    dh = MOD + "::decrypt::DecrypterHalf"
    enc_fn = ciphers.raw_callee(ctx, eh + "::encrypt", enc_fn)
    dec_fn = ciphers.raw_callee(ctx, dh + "::decrypt", dec_fn)
    inline = {}
    for half, meth, raw, direction in ((eh, "encrypt", enc_fn, "enc"), (dh, "decrypt", dec_fn, "dec")):
        mb = ctx.fb.body(half + "::" + meth)
        has_local_callee = mb is not None and any(t.get("resolved") in ctx.fb.bodies for _, t in mb.calls())
        if mb is not None and not has_local_callee and cfg_has_loop(mb):
            # the per-byte step is written in the half's method itself
            inline[half] = ciphers.step_rule(ctx, rep, half + "::" + meth, direction, KEYLEN, method_of=half)
        else:
            ciphers.step_rule(ctx, rep, raw, direction, KEYLEN)
    ciphers.state_census(ctx, rep, eh, eh + "::new", {eh + "::encrypt"})
    ciphers.state_census(ctx, rep, dh, dh + "::new", {dh + "::decrypt"})
    wiring(ctx, rep, MOD, eh, dh, enc_fn, dec_fn, inline)
    # new stores the raw session key
    for half in (eh, dh):
        se = ctx.wrap.run(half + "::new")
        good = se is not None and strip(se.ret)[0] == "agg" and ("param", 1) in strip(se.ret)[4]
        rep.check(good, "wiring", half + "::new", "raw-key", "key field = the session key parameter, unchanged", "Vanilla half is not keyed with the raw session key")
